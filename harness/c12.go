package main

// C12 — every RPC of the DatasetManager, DataManager and Search services, with structured mostly-valid requests and a
// stream of malformed ones, against a real anndb.Server over real gRPC on loopback.  Phase 1 (a child process): start a
// fresh server, send the requests, check after each that the process still answers; the child then exits without
// stopping the server (a kill).  Phase 2 (another child): start a server over the same directory - it has to replay
// whatever the requests left in the logs - and use every dataset.  A child that dies tells which request killed it.

import (
	"context"
	"encoding/json"
	"fmt"
	"io"
	"math"
	"os"
	"path/filepath"
	"strings"
	"time"

	anndb "github.com/marekgalovic/anndb"
	pb "github.com/marekgalovic/anndb/protobuf"
	uuid "github.com/satori/go.uuid"
	"google.golang.org/grpc"
	"google.golang.org/grpc/codes"
	"google.golang.org/grpc/status"
)

func init() { runners["C12"] = runC12 }

type c12Item struct {
	Id    []byte            `json:"id"`
	Value []uint32          `json:"value"`
	Meta  map[string]string `json:"meta,omitempty"`
	Level int32             `json:"level,omitempty"` // a level the client puts into a batch item (the server draws its own)
}
type c12Req struct {
	Kind  string            `json:"kind"`
	Tag   string            `json:"tag"`            // what is unusual about the request ("valid" if nothing)
	Ds    string            `json:"ds,omitempty"`   // "d0", "d1", … (created datasets), "unknown", "malformed", "empty"
	Part  string            `json:"part,omitempty"` // "p0", "p1", … of that dataset, "unknown", "malformed"
	Id    []byte            `json:"id,omitempty"`
	Value []uint32          `json:"value,omitempty"`
	Meta  map[string]string `json:"meta,omitempty"`
	K     uint32            `json:"k,omitempty"`
	Items []c12Item         `json:"items,omitempty"`
	// create
	Dim, Space, Parts, Repl uint32
}
type c12Case struct {
	Phase string   `json:"phase"` // "" (parent), "serve", "restart"
	Dir   string   `json:"dir,omitempty"`
	Reqs  []c12Req `json:"reqs"`
	// observed
	Outcomes []string `json:"outcomes,omitempty"` // per request: "ok" | "error" | "no-answer"
	KilledBy int      `json:"killed_by"`          // index of the request during which the process died (-1 = none)
	Restart  string   `json:"restart,omitempty"`  // "ok" | description
}

func f32s(bits []uint32) []float32 {
	out := make([]float32, len(bits))
	for i, b := range bits {
		out[i] = math.Float32frombits(b)
	}
	return out
}

type c12Client struct {
	conn *grpc.ClientConn
	dm   pb.DatasetManagerClient
	da   pb.DataManagerClient
	se   pb.SearchClient
	dss  []*pb.Dataset
}

func (c *c12Client) dsId(ref string) []byte {
	switch ref {
	case "unknown":
		return uuid.NewV4().Bytes()
	case "malformed":
		return []byte{1, 2, 3}
	case "empty", "":
		return nil
	}
	var i int
	fmt.Sscanf(ref, "d%d", &i)
	if i < len(c.dss) {
		return c.dss[i].GetId()
	}
	return uuid.NewV4().Bytes()
}
func (c *c12Client) partId(ds, ref string) []byte {
	switch ref {
	case "unknown":
		return uuid.NewV4().Bytes()
	case "malformed":
		return []byte{9}
	case "":
		return nil
	}
	var i, p int
	fmt.Sscanf(ds, "d%d", &i)
	fmt.Sscanf(ref, "p%d", &p)
	if i < len(c.dss) && p < len(c.dss[i].GetPartitions()) {
		return c.dss[i].GetPartitions()[p].GetId()
	}
	return uuid.NewV4().Bytes()
}
func items(in []c12Item) []*pb.BatchItem {
	var out []*pb.BatchItem
	for _, it := range in {
		out = append(out, &pb.BatchItem{Id: it.Id, Value: f32s(it.Value), Metadata: it.Meta, Level: it.Level})
	}
	return out
}

func (c *c12Client) send(r c12Req, patience time.Duration) error {
	ctx, cancel := context.WithTimeout(context.Background(), patience)
	defer cancel()
	drain := func(recv func() error) error {
		for {
			if err := recv(); err != nil {
				if err == io.EOF {
					return nil
				}
				return err
			}
		}
	}
	switch r.Kind {
	case "Create":
		d, err := c.dm.Create(ctx, &pb.Dataset{Dimension: r.Dim, Space: pb.Space(r.Space), PartitionCount: r.Parts, ReplicationFactor: r.Repl})
		if err == nil {
			c.dss = append(c.dss, d)
		}
		return err
	case "Delete":
		_, err := c.dm.Delete(ctx, &pb.UUIDRequest{Id: c.dsId(r.Ds)})
		return err
	case "Get":
		_, err := c.dm.Get(ctx, &pb.GetDatasetRequest{DatasetId: c.dsId(r.Ds), WithSize: true})
		return err
	case "GetDatasetSize":
		_, err := c.dm.GetDatasetSize(ctx, &pb.GetDatasetRequest{DatasetId: c.dsId(r.Ds)})
		return err
	case "List":
		s, err := c.dm.List(ctx, &pb.ListDatasetsRequest{WithSize: true})
		if err != nil {
			return err
		}
		return drain(func() error { _, e := s.Recv(); return e })
	case "Insert":
		_, err := c.da.Insert(ctx, &pb.InsertRequest{DatasetId: c.dsId(r.Ds), Id: r.Id, Value: f32s(r.Value), Metadata: r.Meta})
		return err
	case "Update":
		_, err := c.da.Update(ctx, &pb.UpdateRequest{DatasetId: c.dsId(r.Ds), Id: r.Id, Value: f32s(r.Value), Metadata: r.Meta})
		return err
	case "Remove":
		_, err := c.da.Remove(ctx, &pb.RemoveRequest{DatasetId: c.dsId(r.Ds), Id: r.Id})
		return err
	case "BatchInsert":
		_, err := c.da.BatchInsert(ctx, &pb.BatchRequest{DatasetId: c.dsId(r.Ds), Items: items(r.Items)})
		return err
	case "BatchUpdate":
		_, err := c.da.BatchUpdate(ctx, &pb.BatchRequest{DatasetId: c.dsId(r.Ds), Items: items(r.Items)})
		return err
	case "BatchRemove":
		_, err := c.da.BatchRemove(ctx, &pb.BatchRequest{DatasetId: c.dsId(r.Ds), Items: items(r.Items)})
		return err
	case "PartitionBatchInsert":
		_, err := c.da.PartitionBatchInsert(ctx, &pb.PartitionBatchRequest{DatasetId: c.dsId(r.Ds), PartitionId: c.partId(r.Ds, r.Part), Items: items(r.Items)})
		return err
	case "PartitionBatchUpdate":
		_, err := c.da.PartitionBatchUpdate(ctx, &pb.PartitionBatchRequest{DatasetId: c.dsId(r.Ds), PartitionId: c.partId(r.Ds, r.Part), Items: items(r.Items)})
		return err
	case "PartitionBatchRemove":
		_, err := c.da.PartitionBatchRemove(ctx, &pb.PartitionBatchRequest{DatasetId: c.dsId(r.Ds), PartitionId: c.partId(r.Ds, r.Part), Items: items(r.Items)})
		return err
	case "PartitionInfo":
		_, err := c.da.PartitionInfo(ctx, &pb.PartitionInfoRequest{DatasetId: c.dsId(r.Ds), PartitionId: c.partId(r.Ds, r.Part)})
		return err
	case "Search":
		s, err := c.se.Search(ctx, &pb.SearchRequest{DatasetId: c.dsId(r.Ds), Query: f32s(r.Value), K: r.K})
		if err != nil {
			return err
		}
		return drain(func() error { _, e := s.Recv(); return e })
	case "SearchPartitions":
		var pids [][]byte
		for _, p := range strings.Split(r.Part, ",") {
			pids = append(pids, c.partId(r.Ds, p))
		}
		s, err := c.se.SearchPartitions(ctx, &pb.SearchPartitionsRequest{DatasetId: c.dsId(r.Ds), PartitionIds: pids, Query: f32s(r.Value), K: r.K})
		if err != nil {
			return err
		}
		return drain(func() error { _, e := s.Recv(); return e })
	}
	return fmt.Errorf("unknown request kind %s", r.Kind)
}

func (c *c12Client) alive() bool {
	ctx, cancel := context.WithTimeout(context.Background(), 3*time.Second)
	defer cancel()
	s, err := c.dm.List(ctx, &pb.ListDatasetsRequest{})
	if err != nil {
		return false
	}
	for {
		if _, err := s.Recv(); err != nil {
			return err == io.EOF
		}
	}
}

func c12StartServer(dir, port string) (*anndb.Server, *c12Client, error) {
	srv, err := startServer(dir, port)
	if err != nil {
		return srv, nil, err
	}
	conn, err := grpc.Dial("127.0.0.1:"+port, grpc.WithInsecure())
	if err != nil {
		return srv, nil, err
	}
	return srv, &c12Client{conn: conn, dm: pb.NewDatasetManagerClient(conn), da: pb.NewDataManagerClient(conn), se: pb.NewSearchClient(conn)}, nil
}

func c12Progress(dir string, i int) {
	os.WriteFile(filepath.Join(dir, "progress.txt"), []byte(fmt.Sprint(i)), 0644)
}

// phase 1: the child that serves the requests and is then killed
func runC12Serve(c *c12Case, st *stats) {
	os.MkdirAll(filepath.Join(c.Dir, "data"), 0755)
	c12Progress(c.Dir, -1)
	srv, cl, err := c12StartServer(filepath.Join(c.Dir, "data"), freePort())
	if err != nil {
		st.ImplFailures = append(st.ImplFailures, implFailure{What: "fresh server did not start: " + err.Error(), Key: "server-start", Input: *c})
		return
	}
	for i, r := range c.Reqs {
		c12Progress(c.Dir, i)
		err := cl.send(r, 4*time.Second)
		unanswered := false
		// (the server hands its own context's expiry back as a plain error: the same thing seen from the other side)
		late := func(err error) bool {
			return err != nil && (status.Code(err) == codes.DeadlineExceeded || strings.Contains(err.Error(), "context deadline exceeded"))
		}
		if late(err) {
			// no answer within 4 s: on a loaded machine that can be slowness, so the request is repeated with a long
			// deadline; a request that is still unanswered then has wedged whatever serves it (a search that spins, an
			// apply loop that never finishes the previous entry)
			st.count("repeated-after-4s-without-answer")
			err = cl.send(r, 25*time.Second)
			unanswered = late(err)
		}
		out := "ok"
		if err != nil {
			out = "error"
		}
		if unanswered || !cl.alive() {
			out = "no-answer"
		}
		c.Outcomes = append(c.Outcomes, out)
		if out == "no-answer" {
			what, key := fmt.Sprintf("after request %d (%s, %s) the server no longer answers (wedged)", i, r.Kind, r.Tag), "wedged:"+r.Kind+":"+r.Tag
			if unanswered {
				what, key = fmt.Sprintf("request %d (%s, %s) receives neither a response nor an error: unanswered after 4 s and again after 25 s", i, r.Kind, r.Tag), "unanswered:"+r.Kind+":"+r.Tag
			}
			st.ImplFailures = append(st.ImplFailures, implFailure{Case: i, What: what, Key: key, Input: *c})
			break
		}
	}
	c12Progress(c.Dir, len(c.Reqs))
	if n := len(c.Outcomes); n > 0 && c.Outcomes[n-1] == "no-answer" {
		// a wedged server is not asked for snapshots (that would wait for the wedged loop): it is killed as it is
		return
	}
	// every partition compacts its log into a snapshot (as the periodic snapshot would): the restart then has to load it
	for _, d := range cl.dss {
		ds, err := srv.VerifDatasetManager().Get(uuid.FromBytesOrNil(d.GetId()))
		if err != nil {
			continue
		}
		for p := 0; p < ds.VerifPartitionCount(); p++ {
			if g := ds.VerifRaft(p); g != nil {
				g.VerifSnapshotNow(g.VerifStatus().Applied, 0)
			}
		}
	}
	// let the raft loops persist what was acknowledged, then die without stopping anything
	time.Sleep(50 * time.Millisecond)
}

// phase 2: a new process over the same directory
func runC12Restart(c *c12Case, st *stats) {
	srv, cl, err := c12StartServer(filepath.Join(c.Dir, "data"), freePort())
	if err != nil {
		c.Restart = "did not start: " + err.Error()
		return
	}
	// partitions replay their logs once their groups are loaded; use every dataset
	time.Sleep(300 * time.Millisecond)
	ctx, cancel := context.WithTimeout(context.Background(), 5*time.Second)
	defer cancel()
	s, err := cl.dm.List(ctx, &pb.ListDatasetsRequest{})
	if err != nil {
		c.Restart = "List failed: " + err.Error()
		return
	}
	for {
		d, err := s.Recv()
		if err != nil {
			break
		}
		q := make([]float32, d.GetDimension())
		deadline := time.Now().Add(6 * time.Second)
		for {
			sctx, scancel := context.WithTimeout(context.Background(), 2*time.Second)
			ss, err := cl.se.Search(sctx, &pb.SearchRequest{DatasetId: d.GetId(), Query: q, K: 3})
			if err == nil {
				for {
					if _, err = ss.Recv(); err != nil {
						break
					}
				}
				if err == io.EOF {
					err = nil
				}
			}
			scancel()
			if err == nil || time.Now().After(deadline) || !cl.alive() {
				break
			}
			time.Sleep(100 * time.Millisecond) // groups may still be electing
		}
	}
	if !cl.alive() {
		c.Restart = "the restarted server stopped answering"
		return
	}
	stopped := make(chan struct{})
	go func() { srv.Stop(); close(stopped) }()
	select {
	case <-stopped:
		c.Restart = "ok"
	case <-time.After(20 * time.Second):
		c.Restart = "the restarted server does not stop within 20 s: a loop is stuck on what it replayed from the log"
	}
}

// ---- request generation ----
func genC12Reqs(r *rng, n int) []c12Req {
	vec := func(d int) []uint32 {
		v := make([]uint32, d)
		for i := range v {
			v[i] = math.Float32bits(float32(int(r.intn(17))-8) / 2)
		}
		return v
	}
	id := func() []byte { return uuidFrom(r).Bytes() }
	var reqs []c12Req
	// two ordinary datasets to aim at (d0: dim 3, 2 partitions; d1: dim 1, 1 partition)
	reqs = append(reqs, c12Req{Kind: "Create", Tag: "valid", Dim: 3, Space: 0, Parts: 2, Repl: 1}, c12Req{Kind: "Create", Tag: "valid", Dim: 1, Space: 2, Parts: 1, Repl: 1})
	var known [][]byte
	for i := 0; i < 4; i++ {
		k := id()
		known = append(known, k)
		reqs = append(reqs, c12Req{Kind: "Insert", Tag: "valid", Ds: "d0", Id: k, Value: vec(3), Meta: map[string]string{"n": fmt.Sprint(i)}})
	}
	// enough items in d0 (from a grid of 17^3 points: repeated vectors and tied distances are certain) for the entry
	// point of both partitions to sit on an upper level, so that every later request walks the upper levels first
	for i := 0; i < 3; i++ {
		reqs = append(reqs, c12Req{Kind: "BatchInsert", Tag: "valid", Ds: "d0", Items: manyItems(r, 60, 3)})
	}
	same := vec(3)
	for i := 0; i < 12; i++ {
		reqs = append(reqs, c12Req{Kind: "Insert", Tag: "valid", Ds: "d0", Id: id(), Value: same})
	}
	// d2: a cosine dataset receiving numerically parallel vectors - the float32 cosine of v and c*v rounds to either
	// side of 1, so the raw kernel value 1 - cos can be a tiny negative number; plus a repeated and an opposite vector
	reqs = append(reqs, c12Req{Kind: "Create", Tag: "valid", Dim: 3, Space: 2, Parts: 1, Repl: 1})
	for j := 0; j < 6; j++ {
		v := [3]float32{float32(1+r.intn(30)) / 10, float32(1+r.intn(30)) / 10, float32(1+r.intn(30)) / 10}
		sc := func(c float32) []uint32 {
			return []uint32{math.Float32bits(c * v[0]), math.Float32bits(c * v[1]), math.Float32bits(c * v[2])}
		}
		for _, c := range []float32{1, 3, 10, 1, -1}[:3+j%3] {
			reqs = append(reqs, c12Req{Kind: "Insert", Tag: "valid-parallel", Ds: "d2", Id: id(), Value: sc(c)})
		}
		reqs = append(reqs, c12Req{Kind: "Search", Tag: "valid-parallel", Ds: "d2", Value: sc(7), K: 3})
	}
	nan, inf := math.Float32bits(float32(math.NaN())), math.Float32bits(float32(math.Inf(1)))
	big := math.Float32bits(3e38)
	longKey, longVal := strings.Repeat("k", 300), strings.Repeat("v", 70000)
	malformed := []c12Req{
		{Kind: "Create", Tag: "zero-partitions", Dim: 2, Parts: 0, Repl: 1},
		{Kind: "Create", Tag: "zero-replicas", Dim: 2, Parts: 1, Repl: 0},
		{Kind: "Create", Tag: "zero-dimension", Dim: 0, Parts: 1, Repl: 1},
		{Kind: "Create", Tag: "unknown-space", Dim: 2, Space: 7, Parts: 1, Repl: 1},
		{Kind: "Create", Tag: "negative-space", Dim: 2, Space: 4294967295, Parts: 1, Repl: 1}, // proto3 enums are open int32s: -1 on the wire
		{Kind: "Create", Tag: "huge-partition-count", Dim: 2, Parts: 1 << 31, Repl: 1},
		{Kind: "Create", Tag: "huge-replication", Dim: 2, Parts: 1, Repl: 1 << 31},
		{Kind: "Insert", Tag: "malformed-id", Ds: "d0", Id: []byte{1, 2}, Value: vec(3)},
		{Kind: "Insert", Tag: "empty-id", Ds: "d0", Value: vec(3)},
		{Kind: "Insert", Tag: "wrong-dimension", Ds: "d0", Id: id(), Value: vec(5)},
		{Kind: "Insert", Tag: "empty-vector", Ds: "d0", Id: id()},
		{Kind: "Insert", Tag: "nan", Ds: "d0", Id: id(), Value: []uint32{nan, 0, nan}},
		{Kind: "Insert", Tag: "inf", Ds: "d0", Id: id(), Value: []uint32{inf, inf, 0}},
		{Kind: "Insert", Tag: "huge-values", Ds: "d0", Id: id(), Value: []uint32{big, big, big}},
		{Kind: "Insert", Tag: "zero-vector-cosine", Ds: "d2", Id: id(), Value: []uint32{0, 0, 0}},
		{Kind: "Search", Tag: "zero-query-cosine", Ds: "d2", Value: []uint32{0, 0, 0}, K: 4},
		{Kind: "Insert", Tag: "huge-values-cosine", Ds: "d2", Id: id(), Value: []uint32{big, big, big}},
		{Kind: "Insert", Tag: "tiny-values-cosine", Ds: "d2", Id: id(), Value: []uint32{1, 1, 1}},
		{Kind: "Insert", Tag: "long-metadata-key", Ds: "d0", Id: id(), Value: vec(3), Meta: map[string]string{longKey: "x"}},
		{Kind: "Insert", Tag: "long-metadata-value", Ds: "d0", Id: id(), Value: vec(3), Meta: map[string]string{"k": longVal}},
		{Kind: "Insert", Tag: "many-metadata-keys", Ds: "d0", Id: id(), Value: vec(3), Meta: manyKeys(70000)},
		{Kind: "Insert", Tag: "unknown-dataset", Ds: "unknown", Id: id(), Value: vec(3)},
		{Kind: "Insert", Tag: "malformed-dataset-id", Ds: "malformed", Id: id(), Value: vec(3)},
		{Kind: "Insert", Tag: "duplicate-id", Ds: "d0", Id: known[0], Value: vec(3)},
		{Kind: "Update", Tag: "missing-metadata", Ds: "d0", Id: known[1], Value: vec(3)},
		// keys accumulate over updates: each request within the bound, the merged metadata beyond it
		{Kind: "Update", Tag: "accumulating-metadata-1", Ds: "d0", Id: known[3], Value: vec(3), Meta: manyKeysFrom(0, 40000)},
		{Kind: "Update", Tag: "accumulating-metadata-2", Ds: "d0", Id: known[3], Value: vec(3), Meta: manyKeysFrom(40000, 40000)},
		{Kind: "BatchUpdate", Tag: "accumulating-metadata-1", Ds: "d0", Items: []c12Item{{Id: known[2], Value: vec(3), Meta: manyKeysFrom(0, 40000)}}},
		{Kind: "BatchUpdate", Tag: "accumulating-metadata-2", Ds: "d0", Items: []c12Item{{Id: known[2], Value: vec(3), Meta: manyKeysFrom(40000, 40000)}}},
		{Kind: "Update", Tag: "unknown-item", Ds: "d0", Id: id(), Value: vec(3)},
		{Kind: "Update", Tag: "wrong-dimension", Ds: "d0", Id: known[1], Value: vec(1)},
		{Kind: "Update", Tag: "long-metadata-key", Ds: "d0", Id: known[1], Value: vec(3), Meta: map[string]string{longKey: "x"}},
		{Kind: "Update", Tag: "malformed-id", Ds: "d0", Id: []byte{7}, Value: vec(3)},
		{Kind: "Remove", Tag: "unknown-item", Ds: "d0", Id: id()},
		{Kind: "Remove", Tag: "malformed-id", Ds: "d0", Id: []byte{1}},
		{Kind: "BatchInsert", Tag: "malformed-item-id", Ds: "d0", Items: []c12Item{{Id: []byte{1, 2, 3}, Value: vec(3)}, {Id: id(), Value: vec(3)}}},
		{Kind: "BatchInsert", Tag: "wrong-dimension-item", Ds: "d0", Items: []c12Item{{Id: id(), Value: vec(2)}, {Id: id(), Value: vec(3)}}},
		{Kind: "BatchInsert", Tag: "empty-batch", Ds: "d0"},
		{Kind: "BatchInsert", Tag: "oversized-batch", Ds: "d0", Items: manyItems(r, 101, 3)},
		{Kind: "BatchInsert", Tag: "long-metadata-key", Ds: "d0", Items: []c12Item{{Id: id(), Value: vec(3), Meta: map[string]string{longKey: "y"}}}},
		{Kind: "BatchUpdate", Tag: "malformed-item-id", Ds: "d0", Items: []c12Item{{Id: []byte{4}, Value: vec(3)}}},
		{Kind: "BatchUpdate", Tag: "missing-metadata", Ds: "d0", Items: []c12Item{{Id: known[2], Value: vec(3)}}},
		{Kind: "BatchRemove", Tag: "malformed-item-id", Ds: "d0", Items: []c12Item{{Id: []byte{4, 4}}}},
		{Kind: "BatchRemove", Tag: "unknown-item", Ds: "d0", Items: []c12Item{{Id: id()}}},
		{Kind: "PartitionBatchInsert", Tag: "malformed-item-id", Ds: "d0", Part: "p0", Items: []c12Item{{Id: []byte{1, 2, 3}, Value: vec(3)}}},
		{Kind: "PartitionBatchInsert", Tag: "wrong-dimension-item", Ds: "d0", Part: "p0", Items: []c12Item{{Id: id(), Value: vec(7)}, {Id: id(), Value: vec(3)}}},
		{Kind: "PartitionBatchInsert", Tag: "empty-vector-item", Ds: "d0", Part: "p1", Items: []c12Item{{Id: id()}}},
		{Kind: "PartitionBatchInsert", Tag: "unknown-partition", Ds: "d0", Part: "unknown", Items: []c12Item{{Id: id(), Value: vec(3)}}},
		{Kind: "PartitionBatchInsert", Tag: "malformed-partition-id", Ds: "d0", Part: "malformed", Items: []c12Item{{Id: id(), Value: vec(3)}}},
		{Kind: "PartitionBatchInsert", Tag: "oversized-batch", Ds: "d0", Part: "p0", Items: manyItems(r, 101, 3)},
		// the level of a vertex is the server's business: whatever a client writes into the field must not reach the log
		{Kind: "PartitionBatchInsert", Tag: "negative-level-item", Ds: "d0", Part: "p0", Items: []c12Item{{Id: id(), Value: vec(3)}, {Id: id(), Value: vec(3), Level: -2}}},
		{Kind: "PartitionBatchInsert", Tag: "huge-level-item", Ds: "d0", Part: "p1", Items: []c12Item{{Id: id(), Value: vec(3)}, {Id: id(), Value: vec(3), Level: 1 << 30}}},
		{Kind: "BatchInsert", Tag: "negative-level-item", Ds: "d0", Items: []c12Item{{Id: id(), Value: vec(3)}, {Id: id(), Value: vec(3), Level: -3}}},
		{Kind: "PartitionBatchUpdate", Tag: "malformed-item-id", Ds: "d0", Part: "p0", Items: []c12Item{{Id: []byte{5}, Value: vec(3)}}},
		{Kind: "PartitionBatchUpdate", Tag: "wrong-dimension-item", Ds: "d0", Part: "p0", Items: []c12Item{{Id: known[0], Value: vec(9)}, {Id: known[1], Value: vec(9)}, {Id: known[2], Value: vec(9)}, {Id: known[3], Value: vec(9)}}},
		{Kind: "PartitionBatchRemove", Tag: "malformed-item-id", Ds: "d0", Part: "p1", Items: []c12Item{{Id: []byte{6, 6, 6}}}},
		{Kind: "PartitionInfo", Tag: "unknown-partition", Ds: "d0", Part: "unknown"},
		{Kind: "PartitionInfo", Tag: "malformed-partition-id", Ds: "d0", Part: "malformed"},
		{Kind: "Search", Tag: "k-zero", Ds: "d0", Value: vec(3), K: 0},
		{Kind: "Search", Tag: "k-huge", Ds: "d0", Value: vec(3), K: 4000000000},
		{Kind: "Search", Tag: "wrong-dimension", Ds: "d0", Value: vec(8), K: 3},
		{Kind: "Search", Tag: "empty-query", Ds: "d0", K: 3},
		{Kind: "Search", Tag: "nan-query", Ds: "d0", Value: []uint32{nan, nan, nan}, K: 3},
		{Kind: "Search", Tag: "inf-query", Ds: "d0", Value: []uint32{inf, 0, inf}, K: 3},
		{Kind: "Search", Tag: "huge-query", Ds: "d0", Value: []uint32{big, big, big}, K: 3},
		{Kind: "SearchPartitions", Tag: "nan-query", Ds: "d0", Part: "p0,p1", Value: []uint32{nan, 0, 0}, K: 3},
		{Kind: "Search", Tag: "unknown-dataset", Ds: "unknown", Value: vec(3), K: 3},
		{Kind: "SearchPartitions", Tag: "wrong-dimension", Ds: "d0", Part: "p0,p1", Value: vec(11), K: 3},
		{Kind: "SearchPartitions", Tag: "empty-query", Ds: "d0", Part: "p0", K: 3},
		{Kind: "SearchPartitions", Tag: "k-huge", Ds: "d0", Part: "p0", Value: vec(3), K: 4000000000},
		{Kind: "SearchPartitions", Tag: "unknown-partition", Ds: "d0", Part: "p0,unknown", Value: vec(3), K: 3},
		{Kind: "SearchPartitions", Tag: "malformed-partition-id", Ds: "d0", Part: "malformed", Value: vec(3), K: 3},
		{Kind: "SearchPartitions", Tag: "no-partitions", Ds: "d0", Part: "", Value: vec(3), K: 3},
		{Kind: "Get", Tag: "unknown-dataset", Ds: "unknown"},
		{Kind: "Get", Tag: "malformed-dataset-id", Ds: "malformed"},
		{Kind: "GetDatasetSize", Tag: "empty-dataset-id", Ds: "empty"},
		{Kind: "Delete", Tag: "unknown-dataset", Ds: "unknown"},
		{Kind: "Delete", Tag: "malformed-dataset-id", Ds: "malformed"},
	}
	valid := func() c12Req {
		switch r.intn(8) {
		case 0:
			return c12Req{Kind: "Insert", Tag: "valid", Ds: "d0", Id: id(), Value: vec(3), Meta: map[string]string{"a": "b"}}
		case 1:
			return c12Req{Kind: "Insert", Tag: "valid", Ds: "d1", Id: id(), Value: vec(1)}
		case 2:
			return c12Req{Kind: "Search", Tag: "valid", Ds: "d0", Value: vec(3), K: uint32(1 + r.intn(5))}
		case 3:
			return c12Req{Kind: "Update", Tag: "valid", Ds: "d0", Id: known[r.intn(len(known))], Value: vec(3), Meta: map[string]string{"u": "1"}}
		case 4:
			return c12Req{Kind: "BatchInsert", Tag: "valid", Ds: "d0", Items: manyItems(r, 1+r.intn(4), 3)}
		case 5:
			return c12Req{Kind: "List", Tag: "valid"}
		case 6:
			return c12Req{Kind: "GetDatasetSize", Tag: "valid", Ds: "d0"}
		}
		return c12Req{Kind: "SearchPartitions", Tag: "valid", Ds: "d0", Part: "p0,p1", Value: vec(3), K: 2}
	}
	// the malformed stream in a seed-dependent order, valid traffic in between; requests against a dataset created by
	// an unusual Create (d2, d3, … if that Create was accepted) follow it
	perm := make([]int, len(malformed))
	for i := range perm {
		perm[i] = i
	}
	for i := len(perm) - 1; i > 0; i-- {
		j := r.intn(i + 1)
		perm[i], perm[j] = perm[j], perm[i]
	}
	// two-step entries keep their order
	pos := map[string]int{}
	for at, pi := range perm {
		pos[malformed[pi].Kind+":"+malformed[pi].Tag] = at
	}
	for key, at1 := range pos {
		if strings.HasSuffix(key, "-1") {
			if at2, ok := pos[strings.TrimSuffix(key, "-1")+"-2"]; ok && at2 < at1 {
				perm[at1], perm[at2] = perm[at2], perm[at1]
			}
		}
	}
	created := 3
	for _, pi := range perm {
		if len(reqs) >= n {
			break
		}
		m := malformed[pi]
		reqs = append(reqs, m)
		if m.Kind == "Create" {
			// use it if it exists: insert, search, size (the requests are harmless errors if the Create was refused)
			ds := fmt.Sprintf("d%d", created)
			created++
			d := int(m.Dim)
			reqs = append(reqs,
				c12Req{Kind: "Insert", Tag: "into:" + m.Tag, Ds: ds, Id: id(), Value: vec(d)},
				c12Req{Kind: "Insert", Tag: "into:" + m.Tag, Ds: ds, Id: id(), Value: vec(d)}, // the second item is the first to compute a distance
				c12Req{Kind: "Search", Tag: "in:" + m.Tag, Ds: ds, Value: vec(d), K: 2},
				c12Req{Kind: "GetDatasetSize", Tag: "of:" + m.Tag, Ds: ds})
		}
		if r.intn(2) == 0 {
			reqs = append(reqs, valid())
		}
	}
	return reqs
}

func manyKeysFrom(from, n int) map[string]string {
	m := map[string]string{}
	for i := from; i < from+n; i++ {
		m[fmt.Sprintf("k%d", i)] = "v"
	}
	return m
}
func manyKeys(n int) map[string]string {
	m := map[string]string{}
	for i := 0; i < n; i++ {
		m[fmt.Sprintf("k%d", i)] = "v"
	}
	return m
}
func manyItems(r *rng, n, d int) []c12Item {
	var out []c12Item
	for i := 0; i < n; i++ {
		v := make([]uint32, d)
		for j := range v {
			v[j] = math.Float32bits(float32(r.intn(9)))
		}
		out = append(out, c12Item{Id: uuidFrom(r).Bytes(), Value: v})
	}
	return out
}

func coqC12Req(r c12Req) string {
	// the model sees a request through what the validator looks at
	lenOk := func(bs []byte) string { return b(len(bs) == 16) }
	maxKey, maxVal, nkeys := 0, 0, len(r.Meta)
	for k, v := range r.Meta {
		if len(k) > maxKey {
			maxKey = len(k)
		}
		if len(v) > maxVal {
			maxVal = len(v)
		}
	}
	item := func(it c12Item) string {
		mk, mv := 0, 0
		for k, v := range it.Meta {
			if len(k) > mk {
				mk = len(k)
			}
			if len(v) > mv {
				mv = len(v)
			}
		}
		return fmt.Sprintf("{| ri_id_ok := %s; ri_dim := %d; ri_nkeys := %d; ri_maxkey := %d; ri_maxval := %d |}", lenOk(it.Id), len(it.Value), len(it.Meta), mk, mv)
	}
	var its []string
	for _, it := range r.Items {
		its = append(its, item(it))
	}
	return fmt.Sprintf("{| rq_kind := \"%s\"; rq_id_ok := %s; rq_dim := %d; rq_nkeys := %d; rq_maxkey := %d; rq_maxval := %d; rq_k := %d; rq_items := [%s]; rq_cdim := %d; rq_cspace := %d; rq_cparts := %d; rq_crepl := %d |}",
		r.Kind, lenOk(r.Id), len(r.Value), nkeys, maxKey, maxVal, r.K, strings.Join(its, "; "), r.Dim, r.Space, r.Parts, r.Repl)
}

func runC12(a *args) error {
	quietLogs()
	isoVmemKB = 30000000
	isoTimeout = 240 * time.Second // a request is given 4 s and then 25 s before it counts as unanswered
	st := newStats("request sequences against a real anndb.Server over gRPC on loopback: two ordinary datasets and a few items, a cosine dataset receiving numerically parallel, repeated and opposite vectors (6 groups of 3..5 inserts and a search), then every entry of a catalogue of malformed requests (zero / huge partition, replica and dimension counts, unknown metric, malformed / empty / duplicate ids at the single, batch and partition-batch RPCs, wrong-dimension and empty vectors, NaN / Inf / huge values, over-long and too many metadata entries, empty and oversized batches, k = 0 and k = 4e9, wrong-dimension queries on Search and SearchPartitions, unknown / malformed dataset and partition ids) in seed-dependent order with valid traffic in between; liveness checked after every request; then the process is killed and a new one started over the same store, which must come up and answer a search on every dataset; non-trivial = a sequence in which >= 10 malformed requests were sent; distinct by hash of the sequence")
	if a.replay != "" {
		var c c12Case
		if err := readReplayCase(a.replay, &c); err != nil {
			return err
		}
		switch c.Phase {
		case "serve":
			runC12Serve(&c, st)
			st.Samples = append(st.Samples, c)
			// die without stopping the server: the parent reads stats first
			writeJSON(a.out+"/stats.json", st)
			os.Exit(0)
		case "restart":
			runC12Restart(&c, st)
			st.Samples = append(st.Samples, c)
			return writeJSON(a.out+"/stats.json", st)
		}
		// a replayed parent case: fall through with its requests
		return runC12Parent(a, st, []c12Case{{Reqs: c.Reqs}})
	}
	r := newRng(a.seed)
	var cases []c12Case
	for i := 0; i < a.n; i++ {
		cases = append(cases, c12Case{Reqs: genC12Reqs(r.fork(), 400)})
	}
	return runC12Parent(a, st, cases)
}

func runC12Parent(a *args, st *stats, cases []c12Case) error {
	var itemsV []string
	seen := map[string]bool{}
	for i := range cases {
		c := &cases[i]
		dir := filepath.Join(a.out, fmt.Sprintf("c12_%d", i))
		// a request that kills the process is recorded and left out, and the rest of the sequence is run again on a
		// fresh store, until the whole remaining sequence has been served
		remaining := append([]c12Req(nil), c.Reqs...)
		for round := 0; round < 40; round++ {
			c.KilledBy = -1
			os.RemoveAll(dir)
			os.MkdirAll(dir, 0755)
			serve := c12Case{Phase: "serve", Dir: dir, Reqs: remaining}
			cst, crashed, tail := runIsolated("C12", serve, a, 2*i)
			progress := -1
			if bs, err := os.ReadFile(filepath.Join(dir, "progress.txt")); err == nil {
				fmt.Sscanf(string(bs), "%d", &progress)
			}
			sent := remaining
			if crashed {
				c.KilledBy = progress
				what, key := "the server process died before the first request", "crash:start"
				if progress >= 0 && progress < len(remaining) {
					rq := remaining[progress]
					what = fmt.Sprintf("request %d (%s, %s) killed the server process: %s", progress, rq.Kind, rq.Tag, tail)
					key = "crash:" + rq.Kind + ":" + rq.Tag
					sent = remaining[:progress+1]
				}
				st.ImplFailures = append(st.ImplFailures, implFailure{Case: i, What: what, Key: key, Input: c12Case{Reqs: sent}})
			} else {
				for _, f := range cst.ImplFailures {
					f.Case = i
					st.ImplFailures = append(st.ImplFailures, f)
				}
				if len(cst.Samples) > 0 {
					var oc c12Case
					bs, _ := json.Marshal(cst.Samples[0])
					if json.Unmarshal(bs, &oc) == nil {
						c.Outcomes = oc.Outcomes
					}
				}
			}
			// whatever happened: a new process over the same store must come up and serve
			rst := c12Case{Phase: "restart", Dir: dir}
			rcst, rcrashed, rtail := runIsolated("C12", rst, a, 2*i+1)
			c.Restart = ""
			switch {
			case rcrashed:
				c.Restart = "the restarted process died: " + rtail
			case len(rcst.Samples) > 0:
				var oc c12Case
				bs, _ := json.Marshal(rcst.Samples[0])
				if json.Unmarshal(bs, &oc) == nil {
					c.Restart = oc.Restart
				}
			}
			if c.Restart != "ok" {
				last := "the request sequence"
				key := "poisoned-log"
				if c.KilledBy >= 0 && c.KilledBy < len(remaining) {
					last = fmt.Sprintf("request %d (%s, %s)", c.KilledBy, remaining[c.KilledBy].Kind, remaining[c.KilledBy].Tag)
					key = "poisoned-log:" + remaining[c.KilledBy].Kind + ":" + remaining[c.KilledBy].Tag
				}
				st.ImplFailures = append(st.ImplFailures, implFailure{Case: i, What: fmt.Sprintf("after %s a new process over the same store does not serve: %s", last, c.Restart), Key: key, Input: c12Case{Reqs: sent}})
			}
			if !crashed || progress < 0 || progress >= len(remaining) {
				break
			}
			remaining = append(append([]c12Req(nil), remaining[:progress]...), remaining[progress+1:]...)
			st.count("rounds-after-a-kill")
		}
		c.Reqs = remaining
		os.RemoveAll(dir)
		st.Evaluations++
		nm := 0
		for j, rq := range c.Reqs {
			if rq.Tag != "valid" {
				nm++
			}
			out := "not-sent"
			if j < len(c.Outcomes) {
				out = c.Outcomes[j]
			}
			st.count(rq.Kind + ":" + out)
			itemsV = append(itemsV, fmt.Sprintf("(%s, \"%s\")", coqC12Req(rq), out))
		}
		h := hashOf(c.Reqs)
		if nm >= 10 && !seen[h] {
			seen[h] = true
			st.DistinctNontrivial++
		}
	}
	if len(cases) > 0 {
		n := len(cases[0].Reqs)
		if n > 6 {
			n = 6
		}
		st.Samples = append(st.Samples, map[string]interface{}{"first_requests": cases[0].Reqs[:n], "outcomes": cases[0].Outcomes, "restart": cases[0].Restart})
	}
	prelude := "From Verif Require Import Base.Prelude Api.Validate Generated.Facts Properties.C12.\nFrom Coq Require Import String.\nOpen Scope string_scope.\n"
	defs := "Definition bad_model := Eval vm_compute in bad_idx (req_case_model_ok limits_now) cases 0.\nDefinition bad_oracle := Eval vm_compute in bad_idx req_case_oracle_ok cases 0.\nPrint bad_model. Print bad_oracle.\n"
	if err := writeShards(a.out, prelude, "request * string", itemsV, defs, 400); err != nil {
		return err
	}
	// one Coq case per request: cases.json lists the request with its sequence
	var flat []interface{}
	for _, c := range cases {
		for j := range c.Reqs {
			flat = append(flat, map[string]interface{}{"reqs": c.Reqs[:j+1]})
		}
	}
	if err := writeJSON(a.out+"/cases.json", flat); err != nil {
		return err
	}
	return writeJSON(a.out+"/stats.json", st)
}
