package main

// C13 — one index under concurrent use.  Two regimes: "server" (one writer goroutine inserting and removing, many
// readers searching, getting, asking for the length) and "benchmark" (many writers on overlapping ids plus readers).
// Every call is recorded with its invocation and response instants; afterwards: per id, the insert / remove outcomes
// must be linearizable as operations on a set; the length must equal the number of ids left; every item a search
// returned must have been live at some instant of that search, with the distance to its vector as score; at quiescence
// the structural invariant of the sequential model must hold.  The binary for this property is built with the race
// detector; every scenario runs in a child process (a detected race, a panic or a deadlock ends the child).

import (
	"context"
	"encoding/json"
	"fmt"
	"math"
	"os"
	"strings"
	"sync"
	"sync/atomic"
	"time"

	"github.com/marekgalovic/anndb/index"
	"github.com/marekgalovic/anndb/index/space"
	uuid "github.com/satori/go.uuid"
)

func init() { runners["C13"] = runC13 }

type c13Case struct {
	Regime  string `json:"regime"` // server | benchmark
	Writers int    `json:"writers"`
	Readers int    `json:"readers"`
	Ids     int    `json:"ids"`
	Ops     int    `json:"ops"` // per writer
	Seed    uint64 `json:"seed"`
	M       int    `json:"m"`
	Heur    bool   `json:"heuristic"`
	// observed
	Calls    int      `json:"calls"`
	Problems []string `json:"problems,omitempty"`
}

type c13Call struct {
	kind     string // insert remove
	id       int
	ok       bool // nil error
	inv, ret int64
}
type c13Search struct {
	inv, ret int64
	q        []float32
	res      index.SearchResult
}

// linearizable as a set: search for an order of the calls on one id, consistent with real time, in which every
// outcome is the set's (insert ok iff absent, remove ok iff present).  Small histories per id: depth-first search.
func c13SetLinearizable(calls []c13Call) (ok bool, final bool, checked bool) {
	n := len(calls)
	if n > 62 {
		return true, false, false // too many calls on one id for the exhaustive search: not checked (counted)
	}
	type key struct {
		done    uint64
		present bool
	}
	dead := map[key]bool{}
	var rec func(done uint64, left int, present bool) (bool, bool)
	rec = func(done uint64, left int, present bool) (bool, bool) {
		if left == 0 {
			return true, present
		}
		k := key{done, present}
		if dead[k] {
			return false, false
		}
		// a call can be next only if it was invoked before every remaining call returned
		minRet := int64(math.MaxInt64)
		for i := 0; i < n; i++ {
			if done&(1<<uint(i)) == 0 && calls[i].ret < minRet {
				minRet = calls[i].ret
			}
		}
		for i := 0; i < n; i++ {
			if done&(1<<uint(i)) != 0 || calls[i].inv > minRet {
				continue
			}
			c := calls[i]
			want := (c.kind == "insert" && !present) || (c.kind == "remove" && present)
			if c.ok != want {
				continue
			}
			np := present
			if c.ok {
				np = c.kind == "insert"
			}
			if ok, fin := rec(done|(1<<uint(i)), left-1, np); ok {
				return true, fin
			}
		}
		dead[k] = true
		return false, false
	}
	ok, final = rec(0, n, false)
	return ok, final, true
}

func runC13Scenario(c *c13Case) {
	r := newRng(c.Seed)
	sp := space.NewEuclidean()
	opts := []index.HnswOption{index.HnswM(c.M), index.HnswEf(20), index.HnswEfConstruction(20)}
	if c.Heur {
		opts = append(opts, index.HnswSearchAlgorithm(index.HnswSearchHeuristic))
	}
	idx := index.NewHnsw(2, sp, opts...)
	ids := make([]uuid.UUID, c.Ids)
	vecs := make([][]float32, c.Ids)
	for i := range ids {
		ids[i] = uuidFrom(r)
		vecs[i] = []float32{float32(r.intn(2001)-1000) / 37, float32(r.intn(2001)-1000) / 41}
	}
	t0 := time.Now()
	now := func() int64 { return int64(time.Since(t0)) }
	var mu sync.Mutex
	var calls []c13Call
	var searches []c13Search
	var panics []string
	var stop int32
	var wg, rg sync.WaitGroup
	guard := func(what string, f func()) {
		defer func() {
			if p := recover(); p != nil {
				mu.Lock()
				panics = append(panics, fmt.Sprintf("%s panicked: %v", what, p))
				mu.Unlock()
			}
		}()
		f()
	}
	for w := 0; w < c.Writers; w++ {
		wg.Add(1)
		wr := r.fork()
		go func() {
			defer wg.Done()
			for k := 0; k < c.Ops; k++ {
				i := wr.intn(c.Ids)
				kind := "insert"
				if wr.intn(5) < 2 {
					kind = "remove"
				}
				guard(kind, func() {
					inv := now()
					var err error
					if kind == "insert" {
						err = idx.Insert(ids[i], vecs[i], nil, wr.intn(3))
					} else {
						err = idx.Remove(ids[i])
					}
					ret := now()
					mu.Lock()
					calls = append(calls, c13Call{kind, i, err == nil, inv, ret})
					mu.Unlock()
				})
			}
		}()
	}
	for rd := 0; rd < c.Readers; rd++ {
		rg.Add(1)
		rr := r.fork()
		go func() {
			defer rg.Done()
			for atomic.LoadInt32(&stop) == 0 {
				switch rr.intn(4) {
				case 0:
					guard("Get", func() { idx.Get(ids[rr.intn(c.Ids)]) })
				case 1:
					guard("Len", func() { idx.Len() })
				default:
					guard("Search", func() {
						q := []float32{float32(rr.intn(2001)-1000) / 29, float32(rr.intn(2001)-1000) / 31}
						inv := now()
						res, _ := idx.Search(context.Background(), q, uint(1+rr.intn(5)))
						ret := now()
						mu.Lock()
						if len(searches) < 20000 {
							searches = append(searches, c13Search{inv, ret, q, res})
						}
						mu.Unlock()
					})
				}
			}
		}()
	}
	finished := make(chan struct{})
	go func() { wg.Wait(); close(finished) }()
	select {
	case <-finished:
	case <-time.After(40 * time.Second):
		c.Problems = append(c.Problems, "deadlock: the writers did not finish within 40 s")
		return
	}
	atomic.StoreInt32(&stop, 1)
	rdone := make(chan struct{})
	go func() { rg.Wait(); close(rdone) }()
	select {
	case <-rdone:
	case <-time.After(20 * time.Second):
		c.Problems = append(c.Problems, "deadlock: a reader did not return within 20 s")
		return
	}
	c.Calls = len(calls) + len(searches)
	c.Problems = append(c.Problems, panics...)
	// ---- per id: linearizable as a set; final membership
	byId := map[int][]c13Call{}
	for _, cl := range calls {
		byId[cl.id] = append(byId[cl.id], cl)
	}
	present := map[int]bool{}
	for i, cs := range byId {
		ok, fin, checked := c13SetLinearizable(cs)
		if !ok {
			c.Problems = append(c.Problems, fmt.Sprintf("not-linearizable: the %d insert/remove outcomes on id #%d cannot be ordered as operations on a set", len(cs), i))
			continue
		}
		if checked {
			present[i] = fin
			// the last call to return decides the final state when nothing overlaps it
			last := cs[0]
			for _, x := range cs {
				if x.ret > last.ret {
					last = x
				}
			}
			alone := true
			for _, x := range cs {
				if x != last && x.ret > last.inv {
					alone = false
				}
			}
			_, gerr := idx.Get(ids[i])
			_ = fin
			if alone && (gerr == nil) != (last.kind == "insert") {
				c.Problems = append(c.Problems, fmt.Sprintf("membership: id #%d stored=%v although the last call on it, overlapping no other, was %s", i, gerr == nil, last.kind))
			}
		}
	}
	stored := 0
	for i := range ids {
		if _, e := idx.Get(ids[i]); e == nil {
			stored++
		}
	}
	if idx.Len() != stored {
		c.Problems = append(c.Problems, fmt.Sprintf("count: Len() = %d with %d ids stored", idx.Len(), stored))
	}
	// ---- searches: every returned item was live at some instant of the search, with the right score
	idOf := map[uuid.UUID]int{}
	for i, u := range ids {
		idOf[u] = i
	}
	for _, s := range searches {
		for _, it := range s.res {
			i, known := idOf[it.Id]
			if !known {
				c.Problems = append(c.Problems, "search: returned an id that was never inserted")
				continue
			}
			if d := sp.Distance(s.q, vecs[i]); d != it.Score {
				c.Problems = append(c.Problems, fmt.Sprintf("search: id #%d returned with score %v, distance is %v", i, it.Score, d))
			}
			// live at some instant in [inv, ret]: unless some successful remove returned before the search began and no
			// successful insert was invoked... conservatively: dead throughout iff there is a successful remove R with
			// R.ret < s.inv such that every successful insert I has I.ret < R.inv or I.inv > s.ret
			deadThroughout := false
			for _, R := range byId[i] {
				if R.kind != "remove" || !R.ok || R.ret >= s.inv {
					continue
				}
				covered := true
				for _, I := range byId[i] {
					if I.kind == "insert" && I.ok && !(I.ret < R.inv || I.inv > s.ret) {
						covered = false
						break
					}
				}
				if covered {
					deadThroughout = true
					break
				}
			}
			neverInserted := true
			for _, I := range byId[i] {
				if I.kind == "insert" && I.ok && I.inv <= s.ret {
					neverInserted = false
				}
			}
			if deadThroughout || neverInserted {
				c.Problems = append(c.Problems, fmt.Sprintf("search-returned-removed: id #%d was returned by a search during which it was not stored at any instant", i))
			}
		}
	}
	// ---- quiescence: the sequential invariants (dump checked like C01's: links among stored vertices, entry point of maximal level, …)
	d := idx.VerifDump()
	entryLevel := -1
	for _, v := range d.Vertices {
		if v.InMap && d.Entry >= 0 && v.Id == d.EntryId {
			entryLevel = v.Level
		}
	}
	if stored > 0 && d.Entry < 0 {
		c.Problems = append(c.Problems, fmt.Sprintf("quiescence: %d items stored and no entry point (searches answer nothing)", stored))
	}
	if d.Entry >= 0 && entryLevel < 0 {
		c.Problems = append(c.Problems, "quiescence: the entry point is not a stored item")
	}
	if stored > 0 {
		res, _ := idx.Search(context.Background(), []float32{0, 0}, 3)
		if len(res) == 0 {
			c.Problems = append(c.Problems, "quiescence: a search on a non-empty index returns nothing")
		}
		for _, it := range res {
			if _, e := idx.Get(it.Id); e != nil {
				c.Problems = append(c.Problems, "quiescence: a search returns an item that is not stored")
			}
		}
	}
	if len(c.Problems) > 12 {
		c.Problems = c.Problems[:12]
	}
}

func contains(s, sub string) bool { return strings.Contains(s, sub) }

func c13Key(p string) string {
	for i := 0; i < len(p); i++ {
		if p[i] == ':' {
			return p[:i]
		}
	}
	if len(p) > 30 {
		return p[:30]
	}
	return p
}

func runC13(a *args) error {
	quietLogs()
	isoVmemKB = 0
	st := newStats("one index, Euclidean, dim 2, ids from a pool of 6..40 with fixed vectors: regime 'server' = 1 writer (insert 60% / remove 40%, levels 0..2) + 2..8 readers (Search k 1..5, Get, Len); regime 'benchmark' = 2..8 writers on the same id pool + readers; 150..1500 writer calls per scenario; every call timed; binary built with -race, each scenario in its own process (GORACE halt_on_error); checks: no race report / panic / deadlock, per-id set linearizability (exhaustive search of orders consistent with real time, up to 22 calls per id), Len = ids stored, searched items live at some instant of the search with the true score, entry point / search invariants at quiescence; non-trivial = >= 2 goroutines writing or reading concurrently with a writer and >= 1 remove of a stored id; distinct by (regime, writers, readers, ids, seed)")
	if a.replay != "" {
		var c c13Case
		if err := readReplayCase(a.replay, &c); err != nil {
			return err
		}
		if os.Getenv("C13_CHILD") == "1" {
			c.Problems = nil
			runC13Scenario(&c)
			st.Samples = append(st.Samples, c)
			return writeJSON(a.out+"/stats.json", st)
		}
		return runC13Parent(a, st, []c13Case{c})
	}
	r := newRng(a.seed)
	var cases []c13Case
	for i := 0; i < a.n; i++ {
		c := c13Case{Seed: r.next(), Ids: 6 + r.intn(35), M: []int{2, 4, 16}[r.intn(3)], Heur: r.intn(3) == 0}
		if i%2 == 0 {
			c.Regime, c.Writers, c.Readers, c.Ops = "server", 1, 2+r.intn(7), 300+r.intn(1200)
		} else {
			c.Regime, c.Writers, c.Readers, c.Ops = "benchmark", 2+r.intn(7), r.intn(4), 150+r.intn(300)
		}
		cases = append(cases, c)
	}
	return runC13Parent(a, st, cases)
}

func runC13Parent(a *args, st *stats, cases []c13Case) error {
	os.Setenv("C13_CHILD", "1")
	os.Setenv("GORACE", "halt_on_error=1 exitcode=66")
	defer os.Unsetenv("C13_CHILD")
	type out struct {
		cst  *stats
		dead bool
		tail string
	}
	res := make([]out, len(cases))
	sem := make(chan struct{}, 4)
	var wg sync.WaitGroup
	for i := range cases {
		wg.Add(1)
		sem <- struct{}{}
		go func(i int) {
			defer wg.Done()
			defer func() { <-sem }()
			cst, dead, tail := runIsolated("C13", cases[i], a, i)
			res[i] = out{cst, dead, tail}
		}(i)
	}
	wg.Wait()
	seen := map[string]bool{}
	var items []string
	for i := range cases {
		c := &cases[i]
		o := res[i]
		if o.dead {
			key := "process-died"
			switch {
			case contains(o.tail, "DATA RACE"):
				key = "data-race"
			case contains(o.tail, "panic:"):
				key = "panic"
			case contains(o.tail, "deadlock") || contains(o.tail, "killed"):
				key = "deadlock"
			}
			st.ImplFailures = append(st.ImplFailures, implFailure{Case: i, What: fmt.Sprintf("%s regime (%d writers, %d readers, %d ids): %s", c.Regime, c.Writers, c.Readers, c.Ids, o.tail), Key: key + ":" + c.Regime, Input: *c})
			c.Problems = []string{key}
		} else if len(o.cst.Samples) > 0 {
			var oc c13Case
			bs, _ := json.Marshal(o.cst.Samples[0])
			if json.Unmarshal(bs, &oc) == nil {
				*c = oc
			}
			for _, p := range c.Problems {
				st.ImplFailures = append(st.ImplFailures, implFailure{Case: i, What: fmt.Sprintf("%s regime (%d writers, %d readers, %d ids): %s", c.Regime, c.Writers, c.Readers, c.Ids, p), Key: c13Key(p) + ":" + c.Regime, Input: *c})
			}
		}
		st.Evaluations++
		st.count("regime:" + c.Regime)
		h := hashOf([]interface{}{c.Regime, c.Writers, c.Readers, c.Ids, c.Seed})
		if (c.Writers >= 2 || c.Readers >= 1) && !seen[h] {
			seen[h] = true
			st.DistinctNontrivial++
		}
		items = append(items, fmt.Sprintf("{| cc_server := %s; cc_ok := %s |}", b(c.Regime == "server"), b(len(c.Problems) == 0)))
	}
	if a.replay == "" {
		rounds := 20000
		if a.tier == "thorough" {
			rounds = 150000
		}
		if why := c13FirstInsertRace(rounds); why != "" {
			st.ImplFailures = append(st.ImplFailures, implFailure{Case: -1, What: why, Key: "first-insert-race", Input: map[string]interface{}{"writers": 4, "rounds": rounds}})
		}
		st.count("first-insert-race-rounds")
	}
	if len(cases) > 0 {
		st.Samples = append(st.Samples, cases[0])
	}
	prelude := "From Verif Require Import Base.Prelude Proto.Conc Generated.Facts Properties.C13.\n"
	defs := "Definition bad_model := Eval vm_compute in bad_idx (conc_case_model_ok reader_skips_dead_entry_now) cases 0.\nDefinition bad_oracle := Eval vm_compute in bad_idx conc_case_oracle_ok cases 0.\nPrint bad_model. Print bad_oracle.\n"
	if err := writeShards(a.out, prelude, "conc_case", items, defs, 200); err != nil {
		return err
	}
	if err := writeJSON(a.out+"/cases.json", cases); err != nil {
		return err
	}
	return writeJSON(a.out+"/stats.json", st)
}

// c13FirstInsertRace: four writers insert the same id (different vectors) into an empty index at the same moment -
// the one window in which several writers see no entry point.  Afterwards the index is what a sequential history
// leaves: one insert succeeded, one item, found once by a search with the score of the stored vector; after its
// removal nothing is found.
func c13FirstInsertRace(rounds int) string {
	sp := space.NewEuclidean()
	for round := 0; round < rounds; round++ {
		idx := index.NewHnsw(2, sp, index.HnswM(4), index.HnswEf(10), index.HnswEfConstruction(10))
		id := uuid.NewV4()
		var start, done sync.WaitGroup
		start.Add(1)
		var oks int32
		for w := 0; w < 4; w++ {
			done.Add(1)
			go func(w int) {
				defer done.Done()
				start.Wait()
				if idx.Insert(id, []float32{float32(w + 1), 0}, nil, w%2) == nil {
					atomic.AddInt32(&oks, 1)
				}
			}(w)
		}
		start.Done()
		done.Wait()
		v, gerr := idx.Get(id)
		res, _ := idx.Search(context.Background(), []float32{0, 0}, 5)
		switch {
		case oks != 1:
			return fmt.Sprintf("round %d: %d of 4 concurrent inserts of one id into an empty index succeeded", round, oks)
		case idx.Len() != 1 || gerr != nil:
			return fmt.Sprintf("round %d: after 4 concurrent inserts of one id into an empty index Len() = %d, Get: %v", round, idx.Len(), gerr)
		case len(res) != 1:
			return fmt.Sprintf("round %d: the index holds 1 item (Len() = 1), a search returned %d items", round, len(res))
		case res[0].Score != sp.Distance([]float32{0, 0}, v):
			return fmt.Sprintf("round %d: the search returned the item with score %v, its stored vector %v is at %v", round, res[0].Score, v, sp.Distance([]float32{0, 0}, v))
		}
		idx.Remove(id)
		if res, _ := idx.Search(context.Background(), []float32{0, 0}, 5); len(res) != 0 || idx.Len() != 0 {
			return fmt.Sprintf("round %d: after the removal of the only item Len() = %d and a search returned %d items", round, idx.Len(), len(res))
		}
	}
	return ""
}
