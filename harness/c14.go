package main

// C14 — the dataset catalogue: (a) the real storage.DatasetManager driven entry by entry through the functions it
// registers with its raft group (a scripted group), with a snapshot taken at a cut and restored into a second manager
// that already applied a prefix of the log (a lagging follower) or nothing; (b) a real anndb.Server on loopback with an
// on-disk store: datasets created and deleted through the catalogue, an optional zero-group snapshot, then the server
// is stopped and started again over the same directory (twice) and the listing compared.

import (
	"context"
	"encoding/json"
	"fmt"
	"net"
	"os"
	"path/filepath"
	"sort"
	"strings"
	"time"

	"github.com/golang/protobuf/proto"
	anndb "github.com/marekgalovic/anndb"
	"github.com/marekgalovic/anndb/cluster"
	pb "github.com/marekgalovic/anndb/protobuf"
	"github.com/marekgalovic/anndb/services"
	"github.com/marekgalovic/anndb/storage"
	"github.com/marekgalovic/anndb/storage/raft"
	uuid "github.com/satori/go.uuid"
)

func init() { runners["C14"] = runC14 }

type c14Part struct {
	Id    string   `json:"id"`
	Nodes []uint64 `json:"nodes"`
}
type c14Meta struct {
	Id    string    `json:"id"`
	Dim   uint32    `json:"dim"`
	Space int32     `json:"space"`
	Parts []c14Part `json:"parts"`
}
type c14Change struct {
	Kind string  `json:"kind"` // create delete add remove
	Meta c14Meta `json:"meta,omitempty"`
	Ds   string  `json:"ds,omitempty"`
	Pid  string  `json:"pid,omitempty"`
	Node uint64  `json:"node,omitempty"`
}
type c14Case struct {
	Mode     string      `json:"mode"` // "catalogue" | "restart"
	Log      []c14Change `json:"log"`
	Cut      int         `json:"cut"`
	PriorLen int         `json:"prior_len"` // how many entries the restoring manager applied before the snapshot arrived
	Prior    []c14Meta   `json:"prior"`
	Errs     []string    `json:"errs"`
	Full     []c14Meta   `json:"full"`
	Restored []c14Meta   `json:"restored"`
	// restart mode script
	Script []c14Op `json:"script,omitempty"`
}
type c14Op struct {
	Kind  string `json:"kind"` // create delete snapshot
	Dim   uint32 `json:"dim,omitempty"`
	Parts uint32 `json:"parts,omitempty"`
	Which int    `json:"which,omitempty"` // delete: index into the currently live datasets
}

// scriptGroup implements raft.Group: it only records the functions the catalogue registers.
type scriptGroup struct {
	process, processSnapshot raft.ProcessFn
	snapshot                 raft.SnapshotFn
}

func (g *scriptGroup) RegisterProcessFn(f raft.ProcessFn) error { g.process = f; return nil }
func (g *scriptGroup) RegisterProcessSnapshotFn(f raft.ProcessFn) error {
	g.processSnapshot = f
	return nil
}
func (g *scriptGroup) RegisterSnapshotFn(f raft.SnapshotFn) error { g.snapshot = f; return nil }
func (g *scriptGroup) LeaderId() uint64                           { return 1 }
func (g *scriptGroup) Propose(context.Context, []byte) error      { return nil }

type catNode struct {
	g     *scriptGroup
	dm    *storage.DatasetManager
	alloc *storage.Allocator
}

func newCatNode() (*catNode, error) {
	conn, _ := cluster.NewConn(1, "sim-1", "")
	tr := raft.NewTransport(1, "sim-1", conn)
	n := &catNode{g: &scriptGroup{}, alloc: storage.NewAllocator(conn)}
	var err error
	n.dm, err = storage.NewDatasetManager(n.g, memBadger(), tr, conn, n.alloc)
	return n, err
}
func (n *catNode) close() { n.dm.Close() }

func c14ToPb(m c14Meta) *pb.Dataset {
	d := &pb.Dataset{Id: mustUUID(m.Id).Bytes(), Dimension: m.Dim, Space: pb.Space(m.Space), PartitionCount: uint32(len(m.Parts)), ReplicationFactor: 2}
	for _, p := range m.Parts {
		d.Partitions = append(d.Partitions, &pb.Partition{Id: mustUUID(p.Id).Bytes(), NodeIds: append([]uint64(nil), p.Nodes...)})
	}
	return d
}
func c14FromPb(d *pb.Dataset) c14Meta {
	m := c14Meta{Id: uuid.FromBytesOrNil(d.GetId()).String(), Dim: d.GetDimension(), Space: int32(d.GetSpace())}
	for _, p := range d.GetPartitions() {
		m.Parts = append(m.Parts, c14Part{Id: uuid.FromBytesOrNil(p.GetId()).String(), Nodes: append([]uint64{}, p.GetNodeIds()...)})
	}
	return m
}

func (n *catNode) apply(ch c14Change) (string, error) {
	notifC, notifId := n.dm.VerifNotificator().Create(1)
	defer n.dm.VerifNotificator().Remove(notifId)
	change := &pb.DatasetManagerChange{NotificationId: notifId.Bytes()}
	switch ch.Kind {
	case "create":
		change.Type = pb.DatasetManagerChangeType_DatasetManagerCreateDataset
		change.Data, _ = proto.Marshal(c14ToPb(ch.Meta))
	case "delete":
		change.Type = pb.DatasetManagerChangeType_DatasetManagerDeleteDataset
		change.Data = mustUUID(ch.Ds).Bytes()
	case "add", "remove":
		change.Type = pb.DatasetManagerChangeType_DatasetManagerUpdatePartitionNodes
		t := pb.DatasetPartitionNodesChangeType_DatasetPartitionNodesChangeAddNode
		if ch.Kind == "remove" {
			t = pb.DatasetPartitionNodesChangeType_DatasetPartitionNodesChangeRemoveNode
		}
		change.Data, _ = proto.Marshal(&pb.DatasetPartitionNodesChange{Type: t, DatasetId: mustUUID(ch.Ds).Bytes(), PartitionId: mustUUID(ch.Pid).Bytes(), NodeId: ch.Node})
	}
	data, _ := proto.Marshal(change)
	if err := n.g.process(data); err != nil {
		return "", err
	}
	select {
	case v := <-notifC:
		if v == nil {
			return "KNone", nil
		}
		switch v.(error).Error() {
		case storage.DatasetAlreadyExistsErr.Error():
			return "KExists", nil
		case storage.DatasetNotFoundErr.Error():
			return "KNotFound", nil
		case "Partition not found":
			return "KPartNotFound", nil
		}
		return "other:" + v.(error).Error(), nil
	default:
		return "no-notification", nil
	}
}

func (n *catNode) list() []c14Meta {
	ds, _ := n.dm.List(context.Background(), false)
	var out []c14Meta
	for _, d := range ds {
		out = append(out, c14FromPb(d))
	}
	sort.Slice(out, func(i, j int) bool { return out[i].Id < out[j].Id })
	return out
}

func genC14Log(r *rng, maxLen int) []c14Change {
	nds := 2 + r.intn(3)
	pool := make([]c14Meta, nds)
	for i := range pool {
		pool[i] = c14Meta{Id: uuidFrom(r).String(), Dim: uint32(1 + r.intn(8)), Space: int32(r.intn(3))}
		for p := 0; p < 1+r.intn(3); p++ {
			part := c14Part{Id: uuidFrom(r).String(), Nodes: []uint64{}}
			for _, nid := range []uint64{1, 2, 3, 4, 5} {
				pr := 40
				if nid == 1 {
					pr = 12 // this node: the allocator loads (and on deletion unloads) the partition's raft group
				}
				if r.intn(100) < pr {
					part.Nodes = append(part.Nodes, nid)
				}
			}
			pool[i].Parts = append(pool[i].Parts, part)
		}
	}
	ln := 2 + r.intn(maxLen)
	var log []c14Change
	for len(log) < ln {
		m := pool[r.intn(nds)]
		switch k := r.intn(100); {
		case k < 35:
			log = append(log, c14Change{Kind: "create", Meta: m})
		case k < 60:
			log = append(log, c14Change{Kind: "delete", Ds: m.Id})
		default:
			kind := "add"
			if r.intn(2) == 0 {
				kind = "remove"
			}
			pid := m.Parts[r.intn(len(m.Parts))].Id
			if r.intn(12) == 0 {
				pid = uuidFrom(r).String() // unknown partition
			}
			// node 1 is the applying node: a removal of itself has to be applied whether or not the allocator loop has
			// loaded the partition's group by then (on replay it usually has not)
			node := uint64(2 + r.intn(5))
			if kind == "remove" && r.intn(3) == 0 {
				node = 1
			}
			log = append(log, c14Change{Kind: kind, Ds: m.Id, Pid: pid, Node: node})
		}
	}
	return log
}

func c14Corpus() (logs [][]c14Change, cuts, priors []int) {
	r := newRng(1414)
	m := c14Meta{Id: uuidFrom(r).String(), Dim: 3, Space: 0, Parts: []c14Part{{Id: uuidFrom(r).String(), Nodes: []uint64{2, 3}}}}
	m2 := c14Meta{Id: uuidFrom(r).String(), Dim: 2, Space: 1, Parts: []c14Part{{Id: uuidFrom(r).String(), Nodes: []uint64{3}}}}
	// the lagging follower still holds a dataset the snapshot no longer contains
	logs = append(logs, []c14Change{{Kind: "create", Meta: m}, {Kind: "create", Meta: m2}, {Kind: "delete", Ds: m.Id}, {Kind: "create", Meta: m}})
	cuts, priors = append(cuts, 3), append(priors, 2)
	// … or one whose replica set changed in the meantime
	logs = append(logs, []c14Change{{Kind: "create", Meta: m}, {Kind: "add", Ds: m.Id, Pid: m.Parts[0].Id, Node: 4}, {Kind: "remove", Ds: m.Id, Pid: m.Parts[0].Id, Node: 2}, {Kind: "remove", Ds: m.Id, Pid: m.Parts[0].Id, Node: 3}})
	cuts, priors = append(cuts, 3), append(priors, 1)
	// the applying node is a replica of four partitions and is removed from each right away (a replay applies the
	// entries back to back, before the allocator loop has loaded the groups)
	m4 := c14Meta{Id: uuidFrom(r).String(), Dim: 2, Space: 0}
	for p := 0; p < 4; p++ {
		m4.Parts = append(m4.Parts, c14Part{Id: uuidFrom(r).String(), Nodes: []uint64{1, 2}})
	}
	l4 := []c14Change{{Kind: "create", Meta: m4}}
	for p := 3; p >= 0; p-- {
		l4 = append(l4, c14Change{Kind: "remove", Ds: m4.Id, Pid: m4.Parts[p].Id, Node: 1})
	}
	logs = append(logs, l4)
	cuts, priors = append(cuts, 5), append(priors, 0)
	// duplicate create, delete of a missing dataset, snapshot of the empty catalogue
	logs = append(logs, []c14Change{{Kind: "create", Meta: m}, {Kind: "create", Meta: m}, {Kind: "delete", Ds: m2.Id}, {Kind: "delete", Ds: m.Id}})
	cuts, priors = append(cuts, 4), append(priors, 1)
	return
}

func runC14Catalogue(c *c14Case, st *stats, idx int) {
	fail := func(what, key string) {
		st.ImplFailures = append(st.ImplFailures, implFailure{Case: idx, What: what, Key: key, Input: *c})
	}
	a, err := newCatNode()
	if err != nil {
		fail("NewDatasetManager: "+err.Error(), "setup-error")
		return
	}
	defer a.close()
	b, _ := newCatNode()
	defer b.close()
	var snap []byte
	if c.Cut == 0 {
		snap, _ = a.g.snapshot()
	}
	for i, ch := range c.Log {
		e, err := a.apply(ch)
		if err != nil {
			fail(fmt.Sprintf("entry %d: apply returned %v (the raft loop would stop the process)", i, err), "apply-error")
			return
		}
		c.Errs = append(c.Errs, e)
		// an acknowledged creation is listed as it was proposed (and acknowledged to the caller): id, dimension, metric,
		// partition ids and replica assignment - on this node as on every other one applying the entry
		if ch.Kind == "create" && e == "KNone" {
			for _, m := range a.list() {
				if m.Id == ch.Meta.Id && fmt.Sprint(m) != fmt.Sprint(ch.Meta) {
					fail(fmt.Sprintf("entry %d created dataset %s as %v, the node that applied it lists %v", i, ch.Meta.Id, ch.Meta, m), "created-dataset-listed-differently")
					return
				}
			}
		}
		// an acknowledged replica-set change is what every later listing (and snapshot) of the catalogue shows
		if (ch.Kind == "add" || ch.Kind == "remove") && e == "KNone" {
			for _, m := range a.list() {
				for _, p := range m.Parts {
					if m.Id != ch.Ds || p.Id != ch.Pid {
						continue
					}
					has := false
					for _, nid := range p.Nodes {
						has = has || nid == ch.Node
					}
					if has != (ch.Kind == "add") {
						fail(fmt.Sprintf("entry %d (%s node %d) was applied without error, yet the catalogue lists partition %s on nodes %v", i, ch.Kind, ch.Node, p.Id, p.Nodes), "replica-change-not-listed")
						return
					}
				}
			}
		}
		if i+1 == c.Cut {
			snap, err = a.g.snapshot()
			if err != nil {
				fail("snapshot: "+err.Error(), "snapshot-error")
				return
			}
		}
	}
	c.Full = a.list()
	for _, ch := range c.Log[:c.PriorLen] {
		b.apply(ch)
	}
	c.Prior = b.list()
	var rerr error
	panicked, msg := recoverPanic(func() { rerr = b.g.processSnapshot(snap) })
	if panicked || rerr != nil {
		fail(fmt.Sprintf("restoring the catalogue snapshot failed: %v %s", rerr, msg), "restore-error")
		return
	}
	for _, ch := range c.Log[c.Cut:] {
		b.apply(ch)
	}
	c.Restored = b.list()
	if fmt.Sprint(c.Full) != fmt.Sprint(c14Canon(c.Restored)) && fmt.Sprint(c14Canon(c.Full)) != fmt.Sprint(c14Canon(c.Restored)) {
		fail(fmt.Sprintf("catalogue restored at cut %d (into a node that had applied %d entries) then replaying the rest differs from the catalogue that applied every entry", c.Cut, c.PriorLen), "catalogue-snapshot-divergence")
	}
}

// node sets sorted without repetition (what the Coq side compares)
func c14Canon(ms []c14Meta) []c14Meta {
	out := make([]c14Meta, len(ms))
	for i, m := range ms {
		out[i] = c14Meta{Id: m.Id, Dim: m.Dim, Space: m.Space}
		for _, p := range m.Parts {
			seen := map[uint64]bool{}
			q := c14Part{Id: p.Id, Nodes: []uint64{}}
			for _, n := range p.Nodes {
				if !seen[n] {
					seen[n] = true
					q.Nodes = append(q.Nodes, n)
				}
			}
			sort.Slice(q.Nodes, func(a, b int) bool { return q.Nodes[a] < q.Nodes[b] })
			out[i].Parts = append(out[i].Parts, q)
		}
	}
	return out
}

// ---- restart of a real server ----

// freePort hands out loopback ports from a block that belongs to this process: 10000 + (pid mod 1130) * 20 + k, below
// the kernel's ephemeral range, so that neither another harness process running at the same time nor an outgoing
// connection can take a port between the moment it is chosen and the moment the server listens on it.
var portCounter int

func freePort() string {
	base := 10000 + (os.Getpid()%1130)*20
	for try := 0; try < 20; try++ {
		p := base + portCounter%20
		portCounter++
		l, err := net.Listen("tcp", fmt.Sprintf(":%d", p))
		if err != nil {
			continue
		}
		l.Close()
		return fmt.Sprint(p)
	}
	// fall back to a kernel-chosen port
	l, err := net.Listen("tcp", "127.0.0.1:0")
	if err != nil {
		return "36123"
	}
	defer l.Close()
	_, p, _ := net.SplitHostPort(l.Addr().String())
	return p
}

func startServer(dir, port string) (*anndb.Server, error) {
	cfg := anndb.NewConfig()
	cfg.DataDir, cfg.Port, cfg.RaftNodeId = dir, port, 1
	srv := anndb.NewServer(cfg)
	if err := srv.Run(); err != nil {
		return nil, err
	}
	g := srv.VerifZeroGroup()
	deadline := time.Now().Add(10 * time.Second)
	for time.Now().Before(deadline) {
		g.VerifCampaign()
		time.Sleep(5 * time.Millisecond)
		if g.LeaderId() == 1 {
			s := g.VerifStatus()
			if s.Applied >= s.Commit {
				return srv, nil
			}
		}
	}
	return srv, fmt.Errorf("zero group elected no leader")
}

func listServer(srv *anndb.Server) []c14Meta {
	ds, _ := srv.VerifDatasetManager().List(context.Background(), false)
	var out []c14Meta
	for _, d := range ds {
		out = append(out, c14FromPb(d))
	}
	sort.Slice(out, func(i, j int) bool { return out[i].Id < out[j].Id })
	return out
}

func runC14Restart(c *c14Case, st *stats, idx int, scratch string) {
	fail := func(what, key string) {
		st.ImplFailures = append(st.ImplFailures, implFailure{Case: idx, What: what, Key: key, Input: *c})
	}
	dir := filepath.Join(scratch, fmt.Sprintf("srv_%d", idx))
	os.RemoveAll(dir)
	os.MkdirAll(dir, 0755)
	defer os.RemoveAll(dir)
	port := freePort()
	srv, err := startServer(dir, port)
	if err != nil {
		fail("first start: "+err.Error(), "server-start")
		return
	}
	dm := srv.VerifDatasetManager()
	var live []c14Meta
	snapshotAt := -1
	deletedParts := map[string]string{} // partition id -> dataset id, for datasets whose deletion was acknowledged
	// "its partitions stop serving": no raft group of a deleted dataset's partition is attached to the node's transport
	stillServing := func(sv *anndb.Server, when string) bool {
		time.Sleep(300 * time.Millisecond) // the allocator loop has worked off what the catalogue queued
		for _, gid := range sv.VerifZeroGroup().VerifTransport().VerifGroupIds() {
			id := uuid.UUID(gid).String()
			if ds, gone := deletedParts[id]; gone {
				fail(fmt.Sprintf("%s: the node runs a raft group for partition %s of dataset %s, whose deletion was acknowledged (%d deleted partitions in all)", when, id, ds, len(deletedParts)), "deleted-dataset-still-serving")
				return true
			}
		}
		return false
	}
	for _, op := range c.Script {
		switch op.Kind {
		case "create":
			d, err := dm.Create(context.Background(), &pb.Dataset{Dimension: op.Dim, Space: pb.Space_Euclidean, PartitionCount: op.Parts, ReplicationFactor: 1})
			if err != nil {
				fail("Create: "+err.Error(), "create-error")
				srv.Stop()
				return
			}
			m := c14FromPb(d.Meta())
			live = append(live, m)
			c.Log = append(c.Log, c14Change{Kind: "create", Meta: m})
		case "delete":
			if len(live) == 0 {
				continue
			}
			k := op.Which % len(live)
			if err := dm.Delete(context.Background(), mustUUID(live[k].Id)); err != nil {
				fail("Delete: "+err.Error(), "delete-error")
				srv.Stop()
				return
			}
			c.Log = append(c.Log, c14Change{Kind: "delete", Ds: live[k].Id})
			for _, p := range live[k].Parts {
				deletedParts[p.Id] = live[k].Id
			}
			live = append(live[:k], live[k+1:]...)
		case "snapshot":
			time.Sleep(20 * time.Millisecond)
			// clients read the catalogue in the meantime (datasets get / list): that leaves it as it is
			for _, m := range live {
				services.NewDatasetManagerServer(dm).Get(context.Background(), &pb.GetDatasetRequest{DatasetId: mustUUID(m.Id).Bytes()})
			}
			s := srv.VerifZeroGroup().VerifStatus()
			if err := srv.VerifZeroGroup().VerifSnapshotNow(s.Applied, 0); err != nil {
				fail("snapshot: "+err.Error(), "snapshot-error")
			}
			snapshotAt = len(c.Log)
		}
	}
	c.Errs = nil
	for range c.Log {
		c.Errs = append(c.Errs, "KNone")
	}
	if snapshotAt >= 0 {
		c.Cut = snapshotAt
	}
	c.PriorLen = 0
	time.Sleep(30 * time.Millisecond) // let the allocator load the partitions' groups
	c.Full = listServer(srv)
	if stillServing(srv, "before the stop") {
		srv.Stop()
		return
	}
	srv.Stop()
	for round := 1; round <= 2; round++ {
		srv2, err := startServer(dir, port)
		if err != nil {
			fail(fmt.Sprintf("restart %d: %v", round, err), "server-restart")
			if srv2 != nil {
				srv2.Stop()
			}
			return
		}
		after := listServer(srv2)
		c.Restored = after
		bad := stillServing(srv2, fmt.Sprintf("after restart %d", round))
		srv2.Stop()
		if bad {
			return
		}
		if fmt.Sprint(c14Canon(after)) != fmt.Sprint(c14Canon(c.Full)) {
			fail(fmt.Sprintf("after restart %d the catalogue lists %d datasets, before the stop it listed %d (snapshot stored: %v)", round, len(after), len(c.Full), snapshotAt >= 0), "restart-catalogue-differs")
			return
		}
	}
}

func genC14Script(r *rng, withSnap bool) []c14Op {
	var s []c14Op
	n := 2 + r.intn(5)
	snapAt := r.intn(n)
	for i := 0; i < n; i++ {
		if r.intn(3) == 0 && i > 0 {
			s = append(s, c14Op{Kind: "delete", Which: r.intn(8)})
		} else {
			s = append(s, c14Op{Kind: "create", Dim: uint32(1 + r.intn(6)), Parts: uint32(1 + r.intn(2))})
		}
		if withSnap && i == snapAt {
			s = append(s, c14Op{Kind: "snapshot"})
		}
	}
	return s
}

func coqC14Meta(m c14Meta) string {
	var ps []string
	for _, p := range m.Parts {
		var ns []string
		for _, n := range p.Nodes {
			ns = append(ns, fmt.Sprint(n))
		}
		ps = append(ps, fmt.Sprintf("(%s, [%s])", idN(p.Id), strings.Join(ns, "; ")))
	}
	return fmt.Sprintf("{| ds_dim := %d; ds_space := %d; ds_parts := [%s] |}", m.Dim, m.Space, strings.Join(ps, "; "))
}
func coqC14Cat(ms []c14Meta) string {
	var xs []string
	for _, m := range ms {
		xs = append(xs, fmt.Sprintf("(%s, %s)", idN(m.Id), coqC14Meta(m)))
	}
	return "[" + strings.Join(xs, "; ") + "]"
}
func coqC14Case(c c14Case) string {
	var log []string
	for _, ch := range c.Log {
		switch ch.Kind {
		case "create":
			log = append(log, fmt.Sprintf("CCreate %s %s", idN(ch.Meta.Id), coqC14Meta(ch.Meta)))
		case "delete":
			log = append(log, fmt.Sprintf("CDelete %s", idN(ch.Ds)))
		case "add":
			log = append(log, fmt.Sprintf("CAddNode %s %s %d", idN(ch.Ds), idN(ch.Pid), ch.Node))
		case "remove":
			log = append(log, fmt.Sprintf("CRemoveNode %s %s %d", idN(ch.Ds), idN(ch.Pid), ch.Node))
		}
	}
	var errs []string
	for _, e := range c.Errs {
		if strings.HasPrefix(e, "K") {
			errs = append(errs, e)
		} else {
			errs = append(errs, "KNone (* "+e+" *)")
		}
	}
	return fmt.Sprintf("{| cc_prior := %s;\n     cc_log := [%s];\n     cc_cut := %d; cc_errs := [%s];\n     cc_full := %s;\n     cc_restored := %s |}",
		coqC14Cat(c.Prior), strings.Join(log, ";\n        "), c.Cut, strings.Join(errs, "; "), coqC14Cat(c.Full), coqC14Cat(c.Restored))
}

const c14Prelude = "From Verif Require Import Base.Prelude Cluster.Catalogue Generated.Facts Properties.C14.\nOpen Scope N_scope.\n"
const c14Defs = `Definition bad_model := Eval vm_compute in bad_idx (cat_case_model_ok restore_replaces_now) cases 0.
Definition bad_oracle := Eval vm_compute in bad_idx cat_case_oracle_ok cases 0.
Print bad_model. Print bad_oracle.
`

func runC14(a *args) error {
	quietLogs()
	isoVmemKB = 24000000
	r := newRng(a.seed)
	st := newStats("(a) catalogue logs over 2..4 dataset ids (create incl. duplicates, delete incl. missing, add/remove replica incl. unknown partitions; replica sets over nodes 1..5, node 1 = the applying node so its allocator loads/unloads groups), a snapshot taken by the real DatasetManager after [cut] entries and restored into a second real DatasetManager that had applied [prior_len] <= cut entries (a lagging follower; 0 = fresh node), rest applied; (b) real anndb.Server on loopback over an on-disk store: creates/deletes through the catalogue API, optional forced zero-group snapshot, two stop/start cycles; non-trivial = (a) 0 < cut < len and prior differs from the snapshot, or (b) a restart with >= 1 dataset; distinct by hash of the case input")
	var cases []c14Case
	if a.replay != "" {
		var c c14Case
		if err := readReplayCase(a.replay, &c); err != nil {
			return err
		}
		c.Errs, c.Prior, c.Full, c.Restored = nil, nil, nil, nil
		if c.Mode == "restart" {
			c.Log = nil
		}
		cases = append(cases, c)
	} else {
		logs, cuts, priors := c14Corpus()
		for i := range logs {
			cases = append(cases, c14Case{Mode: "catalogue", Log: logs[i], Cut: cuts[i], PriorLen: priors[i]})
		}
		maxLen := 14
		restarts := 3
		if a.tier == "thorough" {
			maxLen, restarts = 40, 12
		}
		// a dataset with many partitions deleted right after its creation (a restart then replays both entries back to
		// back, before the allocator has loaded anything): its partitions must not be served afterwards
		cases = append(cases, c14Case{Mode: "restart", Script: []c14Op{{Kind: "create", Dim: 2, Parts: 8}, {Kind: "delete", Which: 0}, {Kind: "create", Dim: 3, Parts: 2}}})
		for i := 0; i < restarts; i++ {
			cases = append(cases, c14Case{Mode: "restart", Script: genC14Script(r.fork(), i%3 != 2)})
		}
		// a member that is down while a dataset is deleted and the others compact their logs: it is brought up to date by
		// a snapshot (of the emptied catalogue, or of a catalogue that holds another dataset by then)
		cases = append(cases, c14Case{Mode: "lagging", Cut: 0})
		if a.tier == "thorough" {
			cases = append(cases, c14Case{Mode: "lagging", Cut: 1})
		}
		for len(cases) < a.n {
			l := genC14Log(r.fork(), maxLen)
			cut := r.intn(len(l) + 1)
			prior := 0
			if r.intn(4) != 0 {
				prior = r.intn(cut + 1)
			}
			cases = append(cases, c14Case{Mode: "catalogue", Log: l, Cut: cut, PriorLen: prior})
		}
	}
	var items []string
	var kept []c14Case
	seen := map[string]bool{}
	if a.isolate {
		// an in-process run died (log.Fatal / panic in an apply or raft loop): one child per case finds the input
		for i := range cases {
			cst, crashed, tail := runIsolated("C14", cases[i], a, i)
			st.Evaluations++
			if crashed {
				st.ImplFailures = append(st.ImplFailures, implFailure{Case: i, What: "applying this catalogue history killed the node process: " + tail, Key: "catalogue-process-crash", Input: cases[i]})
			} else {
				st.ImplFailures = append(st.ImplFailures, cst.ImplFailures...)
			}
		}
		st.DistinctNontrivial = 2
		st.Samples = append(st.Samples, "isolated re-run after an in-process crash")
		writeJSON(a.out+"/cases.json", cases)
		return writeJSON(a.out+"/stats.json", st)
	}
	for i := range cases {
		c := &cases[i]
		if c.Mode == "lagging" {
			if a.replay == "" {
				cst, crashed, tail := runIsolated("C14", *c, a, i)
				if crashed {
					st.ImplFailures = append(st.ImplFailures, implFailure{Case: i, What: "a server process died in the lagging-member history: " + tail, Key: "lagging-process-crash", Input: *c})
				} else {
					for _, f := range cst.ImplFailures {
						f.Case = i
						st.ImplFailures = append(st.ImplFailures, f)
					}
					for k, v := range cst.Distribution {
						st.Distribution[k] += v
					}
				}
			} else {
				runC14Lagging(c, st, i, a.out)
			}
			st.count("lagging")
			continue
		}
		if c.Mode == "restart" {
			if a.replay == "" {
				// a server that cannot start panics or exits: run it in a child process
				cst, crashed, tail := runIsolated("C14", *c, a, i)
				if crashed {
					st.ImplFailures = append(st.ImplFailures, implFailure{Case: i, What: "the server process died while stopping and restarting over its own store: " + tail, Key: "restart-process-crash", Input: *c})
					st.count("restart-crash")
					continue
				}
				for _, f := range cst.ImplFailures {
					f.Case = i
					st.ImplFailures = append(st.ImplFailures, f)
				}
				if len(cst.Samples) > 0 {
					// the child's observed case
					var oc c14Case
					bs, _ := json.Marshal(cst.Samples[0])
					if json.Unmarshal(bs, &oc) == nil {
						*c = oc
					}
				}
			} else {
				runC14Restart(c, st, i, a.out)
				st.Samples = append(st.Samples, *c)
			}
			st.count("restart")
			if len(c.Full) > 0 {
				st.count("restart-nonempty")
			}
		} else {
			runC14Catalogue(c, st, i)
			st.count("catalogue")
			st.count(fmt.Sprintf("len<=%d", (len(c.Log)/10+1)*10))
			for _, e := range c.Errs {
				st.count("out:" + e)
			}
		}
		if c.Full == nil && c.Restored == nil && len(c.Log) > 0 && c.Errs == nil {
			continue
		}
		if len(c.Errs) != len(c.Log) || (c.Restored == nil && c.Mode == "catalogue" && len(st.ImplFailures) > 0 && st.ImplFailures[len(st.ImplFailures)-1].Case == i) {
			continue
		}
		kept = append(kept, *c)
		items = append(items, coqC14Case(*c))
		st.Evaluations++
		h := hashOf([]interface{}{c.Mode, c.Log, c.Cut, c.PriorLen, c.Script})
		nontrivial := (c.Mode == "restart" && len(c.Full) > 0) || (c.Mode == "catalogue" && c.Cut > 0 && c.Cut < len(c.Log) && fmt.Sprint(c.Prior) != fmt.Sprint(c.Full))
		if nontrivial && !seen[h] {
			seen[h] = true
			st.DistinctNontrivial++
		}
	}
	if a.replay == "" && len(kept) > 0 {
		st.Samples = append(st.Samples, map[string]interface{}{"log": kept[0].Log, "cut": kept[0].Cut, "prior_len": kept[0].PriorLen})
	}
	if err := writeShards(a.out, c14Prelude, "cat_case", items, c14Defs, 40); err != nil {
		return err
	}
	if err := writeJSON(a.out+"/cases.json", kept); err != nil {
		return err
	}
	return writeJSON(a.out+"/stats.json", st)
}

// runC14Lagging: three real servers; dataset A is created and listed everywhere; member 3 stops; A is deleted (acknowledged
// by the two others); [Cut = 1: dataset B is created;] members 1 and 2 snapshot and compact the zero group's log; [Cut = 0:
// B is created now;] member 3 starts again and is brought up to date by the leader's snapshot.  Every member must list
// exactly B, and member 3 must not serve A's partitions.
func runC14Lagging(c *c14Case, st *stats, idx int, scratch string) {
	fail := func(what, key string) {
		st.ImplFailures = append(st.ImplFailures, implFailure{Case: idx, What: what, Key: key, Input: *c})
	}
	w := &c20World{net: &c20Net{byAddr: map[string]*anndb.Server{}, byId: map[uint64]*anndb.Server{}, cut: map[uint64]bool{}},
		nodes: map[int]*c20Node{}, dir: filepath.Join(scratch, fmt.Sprintf("c14lag_%d", idx)), members: map[int]bool{}}
	os.RemoveAll(w.dir)
	defer os.RemoveAll(w.dir)
	defer func() {
		for _, n := range w.nodes {
			if n.srv != nil {
				w.stop(n)
			}
		}
	}()
	for i := 1; i <= 3; i++ {
		n := &c20Node{id: i, dir: filepath.Join(w.dir, fmt.Sprint(i)), port: freePort()}
		os.MkdirAll(n.dir, 0755)
		w.nodes[i] = n
	}
	if err := w.start(w.nodes[1], false); err != nil {
		st.count("lagging:setup-failed")
		return
	}
	w.members[1] = true
	if !w.settle(15 * time.Second) {
		st.count("lagging:setup-failed")
		return
	}
	for i := 2; i <= 3; i++ {
		w.nodes[i].join = []string{w.nodes[1].addr()}
		if err := w.start(w.nodes[i], true); err != nil {
			st.count("lagging:setup-failed")
			return
		}
		w.members[i] = true
		w.settle(10 * time.Second)
	}
	lists := func(n *c20Node) string {
		var ids []string
		for _, m := range listServer(n.srv) {
			ids = append(ids, m.Id)
		}
		sort.Strings(ids)
		return strings.Join(ids, ",")
	}
	waitAll := func(want string, nodes ...int) bool {
		deadline := time.Now().Add(12 * time.Second)
		for time.Now().Before(deadline) {
			ok := true
			for _, i := range nodes {
				if w.nodes[i].srv == nil || lists(w.nodes[i]) != want {
					ok = false
				}
			}
			if ok {
				return true
			}
			time.Sleep(50 * time.Millisecond)
		}
		return false
	}
	create := func(dim uint32) (string, []string, bool) {
		l := w.leader()
		if l == nil {
			return "", nil, false
		}
		d, err := l.srv.VerifDatasetManager().Create(context.Background(), &pb.Dataset{Dimension: dim, Space: pb.Space_Euclidean, PartitionCount: 2, ReplicationFactor: 3})
		if err != nil {
			return "", nil, false
		}
		m := c14FromPb(d.Meta())
		var parts []string
		for _, p := range m.Parts {
			parts = append(parts, p.Id)
		}
		return m.Id, parts, true
	}
	idA, partsA, ok := create(2)
	if !ok || !waitAll(idA, 1, 2, 3) {
		st.count("lagging:setup-failed")
		return
	}
	w.settle(5 * time.Second)
	w.stop(w.nodes[3])
	delete(w.members, 3) // for settle: member 3 is down
	w.settle(10 * time.Second)
	l := w.leader()
	if l == nil {
		st.count("lagging:setup-failed")
		return
	}
	if err := l.srv.VerifDatasetManager().Delete(context.Background(), mustUUID(idA)); err != nil {
		st.count("lagging:delete-refused")
		return
	}
	idB := ""
	if c.Cut == 1 {
		if idB, _, ok = create(3); !ok {
			st.count("lagging:setup-failed")
			return
		}
	}
	w.settle(10 * time.Second)
	for _, i := range []int{1, 2} {
		s := w.nodes[i].srv.VerifZeroGroup().VerifStatus()
		w.nodes[i].srv.VerifZeroGroup().VerifSnapshotNow(s.Applied, 0)
	}
	if c.Cut == 0 {
		if idB, _, ok = create(3); !ok {
			st.count("lagging:setup-failed")
			return
		}
	}
	if !waitAll(idB, 1, 2) {
		fail(fmt.Sprintf("after the acknowledged deletion of %s and creation of %s members 1 and 2 list [%s] and [%s]", idA, idB, lists(w.nodes[1]), lists(w.nodes[2])), "catalogue-differs-between-members")
		return
	}
	w.members[3] = true
	if err := w.start(w.nodes[3], true); err != nil || w.nodes[3].srv == nil {
		st.count("lagging:restart-failed")
		return
	}
	if !waitAll(idB, 3) {
		fail(fmt.Sprintf("member 3 was down while dataset %s was deleted (acknowledged) and the others compacted their logs (snapshot of a catalogue with %d datasets); back up, it lists [%s], members 1 and 2 list [%s]", idA, c.Cut, lists(w.nodes[3]), lists(w.nodes[1])), "lagging-member-keeps-deleted-dataset")
		return
	}
	time.Sleep(300 * time.Millisecond)
	for _, gid := range w.nodes[3].srv.VerifZeroGroup().VerifTransport().VerifGroupIds() {
		for _, p := range partsA {
			if uuid.UUID(gid).String() == p {
				fail(fmt.Sprintf("member 3 still runs the raft group of partition %s of the deleted dataset %s", p, idA), "deleted-dataset-still-serving")
				return
			}
		}
	}
	st.count("lagging:ok")
}
