package main

// C15 — the three distance kernel implementations (portable Go, AVX assembly, SSE assembly) on identical inputs:
// every length residue, every 4-byte alignment of both operands, operands ending exactly at an unmapped guard page,
// value classes from zeros and subnormals to magnitudes whose squares overflow.  The kernels are called through
// index/space's implementation objects (hook), in a child process per case group (an over-read or an alignment fault
// kills the process).

import (
	"fmt"
	"math"
	"strings"
	"syscall"
	"unsafe"

	"github.com/marekgalovic/anndb/index/space"
)

func init() { runners["C15"] = runC15 }

type c15Case struct {
	Len    int      `json:"len"`
	OffA   int      `json:"off_a"` // operand start, in floats, relative to a 64-byte aligned address
	OffB   int      `json:"off_b"`
	Guard  bool     `json:"guard"` // operands end at a page boundary followed by an unmapped page
	Class  string   `json:"class"`
	A      []uint32 `json:"a"`
	B      []uint32 `json:"b"`
	Impl   string   `json:"impl,omitempty"`   // child mode: which implementation to run
	Native []uint32 `json:"native,omitempty"` // euclidean, manhattan, cosine (bits)
	Avx    []uint32 `json:"avx,omitempty"`
	Sse    []uint32 `json:"sse,omitempty"`
}

// place copies v into fresh memory such that it starts off floats after a 64-byte boundary; with guard, so that it
// ends exactly at the end of a page whose successor is unmapped (start alignment then follows from the length).
func place(v []float32, off int, guard bool) []float32 {
	n := len(v)
	if !guard {
		buf := make([]float32, n+32)
		// what lies around the vector is not part of it: recognisable garbage before and after, and for every other
		// offset the slice keeps its spare capacity (a vector cut out of a larger buffer, grown by append, or decoded
		// into a pooled slice) - a kernel must go by the length
		for i := range buf {
			buf[i] = 7777.25
		}
		base := uintptr(unsafe.Pointer(&buf[0]))
		skip := int((64-base%64)%64) / 4
		out := buf[skip+off : skip+off+n : skip+off+n]
		if off%2 == 1 {
			out = buf[skip+off : skip+off+n]
		}
		copy(out, v)
		return out
	}
	page := syscall.Getpagesize()
	pages := (n*4+page-1)/page + 1
	mem, err := syscall.Mmap(-1, 0, (pages+1)*page, syscall.PROT_READ|syscall.PROT_WRITE, syscall.MAP_ANON|syscall.MAP_PRIVATE)
	if err != nil {
		panic(err)
	}
	if err := syscall.Mprotect(mem[pages*page:], syscall.PROT_NONE); err != nil {
		panic(err)
	}
	end := pages * page
	start := end - n*4
	out := unsafe.Slice((*float32)(unsafe.Pointer(&mem[start])), n)
	copy(out, v)
	return out
}

func c15Run(impl space.SpaceImpl, c *c15Case) []uint32 {
	a, b := place(f32s(c.A), c.OffA, c.Guard), place(f32s(c.B), c.OffB, c.Guard)
	// Cosine.Distance is the absolute value of the implementation's CosineDistance
	cos := impl.CosineDistance(a, b)
	return []uint32{math.Float32bits(impl.EuclideanDistance(a, b)), math.Float32bits(impl.ManhattanDistance(a, b)), math.Float32bits(cos) &^ (1 << 31)}
}

func genC15(r *rng, n int, thorough bool) []c15Case {
	var cs []c15Case
	classes := []string{"small-int", "unit", "mixed-sign", "zeros", "subnormal", "tiny", "large", "huge", "sparse", "same"}
	val := func(class string, i int) float32 {
		switch class {
		case "small-int":
			return float32(int(r.intn(17)) - 8)
		case "unit":
			return float32(r.intn(2000001)-1000000) / 1000000
		case "mixed-sign":
			return float32(r.intn(2001)-1000) * float32(math.Pow(2, float64(int(r.intn(41))-20)))
		case "zeros":
			return 0
		case "subnormal":
			return math.Float32frombits(uint32(r.intn(1<<23)) | uint32(r.intn(2))<<31)
		case "tiny":
			return float32(r.intn(2001)-1000) * 1e-33
		case "large":
			return float32(r.intn(2001)-1000) * 1e16
		case "huge":
			return float32(r.intn(2001)-1000) * 1e35
		case "sparse":
			if r.intn(4) == 0 {
				return float32(r.intn(200) - 100)
			}
			return 0
		}
		return float32(i%7) - 3
	}
	lens := []int{}
	for l := 1; l <= 40; l++ {
		lens = append(lens, l)
	}
	lens = append(lens, 47, 48, 49, 63, 64, 65, 127, 128, 129)
	if thorough {
		lens = append(lens, 255, 256, 257, 511, 512, 513, 1000, 1023, 1024, 1025, 2047, 2048, 4095, 4096)
	}
	for len(cs) < n {
		l := lens[r.intn(len(lens))]
		class := classes[r.intn(len(classes))]
		c := c15Case{Len: l, OffA: r.intn(8), OffB: r.intn(8), Guard: r.intn(4) == 0, Class: class}
		for i := 0; i < l; i++ {
			c.A = append(c.A, math.Float32bits(val(class, i)))
			if class == "same" {
				c.B = append(c.B, c.A[i])
			} else {
				c.B = append(c.B, math.Float32bits(val(class, i)))
			}
		}
		cs = append(cs, c)
	}
	return cs
}

// cause names why a result leaves the expected range, from the operands (used as the finding's key)
func c15Cause(c *c15Case, metric string) string {
	az, bz := true, true
	maxAbs, minD, maxD := 0.0, math.Inf(1), 0.0
	for i := range c.A {
		x, y := float64(math.Float32frombits(c.A[i])), float64(math.Float32frombits(c.B[i]))
		if x != 0 {
			az = false
		}
		if y != 0 {
			bz = false
		}
		maxAbs = math.Max(maxAbs, math.Max(math.Abs(x), math.Abs(y)))
		if d := math.Abs(x - y); d != 0 {
			minD, maxD = math.Min(minD, d), math.Max(maxD, d)
		}
	}
	sa, sb := 0.0, 0.0
	for i := range c.A {
		x, y := float64(math.Float32frombits(c.A[i])), float64(math.Float32frombits(c.B[i]))
		sa += x * x
		sb += y * y
	}
	switch metric {
	case "cosine":
		switch {
		case az || bz:
			return "zero-vector"
		case maxAbs >= 1e15 || sa*sb >= 1e38 || sa >= 1e38 || sb >= 1e38:
			return "norm-overflow" // the squared norms, or their product, leave the binary32 range
		case maxAbs <= 1e-15 || sa*sb <= 1e-37 || sa <= 1e-37 || sb <= 1e-37:
			return "norm-underflow"
		}
	case "manhattan":
		switch {
		case maxD >= 1e18:
			return "square-overflow"
		case minD <= 1e-18:
			return "square-underflow"
		}
	case "euclidean":
		if maxD >= 1e18 {
			return "square-overflow"
		}
	}
	return "class-" + c.Class
}

// tolerance of "the same value up to floating-point rounding": n additions and a few operations per term
func closeEnough(x, y float32, n int) bool {
	fx, fy := float64(x), float64(y)
	if math.IsNaN(fx) || math.IsNaN(fy) {
		return math.IsNaN(fx) && math.IsNaN(fy)
	}
	if math.IsInf(fx, 0) || math.IsInf(fy, 0) {
		return fx == fy
	}
	d := math.Abs(fx - fy)
	scale := math.Max(math.Abs(fx), math.Abs(fy))
	return d <= float64(n+8)*math.Pow(2, -23)*scale || d <= 1e-44
}

func runC15(a *args) error {
	quietLogs()
	isoVmemKB = 4000000
	st := newStats("pairs of equal-length vectors: lengths 1..40 and around 48/64/128 (thorough: up to 4096), both operands at every 4-byte offset from a 64-byte boundary, a quarter of the cases with both operands ending at an unmapped guard page; value classes small integers, unit range, mixed magnitudes 2^-20..2^20, zeros, subnormals, tiny (1e-33), large (1e16), huge (1e35), sparse, identical operands; the three metrics on the portable, AVX and SSE implementations (each implementation in its own child process per case); non-trivial = length >= 9 with a remainder modulo 8 or an unaligned operand; distinct by hash of the case")
	if a.replay != "" {
		var c c15Case
		if err := readReplayCase(a.replay, &c); err != nil {
			return err
		}
		if c.Impl != "" {
			var impl space.SpaceImpl
			switch c.Impl {
			case "native":
				impl = space.VerifNative()
			case "avx":
				impl = space.VerifAvx()
			case "sse":
				impl = space.VerifSse()
			}
			out := c15Run(impl, &c)
			st.Samples = append(st.Samples, out)
			return writeJSON(a.out+"/stats.json", st)
		}
		return runC15Parent(a, st, []c15Case{c})
	}
	r := newRng(a.seed)
	return runC15Parent(a, st, genC15(r, a.n, a.tier == "thorough"))
}

func runC15Parent(a *args, st *stats, cases []c15Case) error {
	type job struct {
		i    int
		impl string
	}
	res := make(map[job][]uint32)
	crashed := make(map[job]string)
	var jobs []job
	for i := range cases {
		for _, impl := range []string{"native", "avx", "sse"} {
			jobs = append(jobs, job{i, impl})
		}
	}
	type outT struct {
		j    job
		v    []uint32
		dead string
	}
	ch := make(chan outT, len(jobs))
	sem := make(chan struct{}, 12)
	for k, j := range jobs {
		sem <- struct{}{}
		go func(k int, j job) {
			defer func() { <-sem }()
			c := cases[j.i]
			c.Impl = j.impl
			cst, dead, tail := runIsolated("C15", c, a, k)
			o := outT{j: j}
			if dead {
				o.dead = tail
			} else if len(cst.Samples) > 0 {
				if xs, ok := cst.Samples[0].([]interface{}); ok {
					for _, x := range xs {
						o.v = append(o.v, uint32(x.(float64)))
					}
				}
			}
			ch <- o
		}(k, j)
	}
	for range jobs {
		o := <-ch
		if o.dead != "" {
			crashed[o.j] = o.dead
		} else {
			res[o.j] = o.v
		}
	}
	metrics := []string{"euclidean", "manhattan", "cosine"}
	seen := map[string]bool{}
	var items []string
	for i := range cases {
		c := &cases[i]
		c.Native, c.Avx, c.Sse = res[job{i, "native"}], res[job{i, "avx"}], res[job{i, "sse"}]
		where := fmt.Sprintf("len=%d offA=%d offB=%d guard=%v class=%s", c.Len, c.OffA, c.OffB, c.Guard, c.Class)
		for _, impl := range []string{"native", "avx", "sse"} {
			if d, ok := crashed[job{i, impl}]; ok {
				kind := "crash"
				if strings.Contains(d, "SIGSEGV") || strings.Contains(d, "signal") {
					kind = "fault"
				}
				al := "aligned"
				if c.OffA%4 != 0 || c.OffB%4 != 0 || (c.Guard && c.Len%4 != 0) {
					al = "unaligned"
				}
				st.ImplFailures = append(st.ImplFailures, implFailure{Case: i, What: fmt.Sprintf("the %s kernels killed the process (%s): %s", impl, where, d),
					Key: fmt.Sprintf("%s:%s:%s", impl, kind, al), Input: *c})
			}
		}
		st.Evaluations++
		st.count("class:" + c.Class)
		st.count(fmt.Sprintf("len%%8=%d", c.Len%8))
		if c.Guard {
			st.count("guard-page")
		}
		if c.Native == nil {
			continue
		}
		for _, other := range []struct {
			name string
			v    []uint32
		}{{"avx", c.Avx}, {"sse", c.Sse}} {
			if other.v == nil {
				continue
			}
			for m := 0; m < 3; m++ {
				x, y := math.Float32frombits(c.Native[m]), math.Float32frombits(other.v[m])
				ok := closeEnough(x, y, c.Len)
				if m == 2 && !ok {
					// 1 - dot/norm lies in [0, 2]: rounding errors of the quotient are absolute, of the order of ulp(1)
					fx, fy := float64(x), float64(y)
					ok = !math.IsNaN(fx) && !math.IsNaN(fy) && math.Abs(fx-fy) <= float64(c.Len+8)*math.Pow(2, -23)
				}
				if !ok {
					st.ImplFailures = append(st.ImplFailures, implFailure{Case: i, What: fmt.Sprintf("%s %s distance %v, portable %v (%s)", other.name, metrics[m], y, x, where),
						Key: fmt.Sprintf("%s:%s:differs:%s", other.name, metrics[m], c15Cause(c, metrics[m])), Input: *c})
				}
			}
		}
		// non-negative, zero on identical operands (up to rounding of the cosine quotient)
		for _, impl := range []struct {
			name string
			v    []uint32
		}{{"native", c.Native}, {"avx", c.Avx}, {"sse", c.Sse}} {
			if impl.v == nil {
				continue
			}
			for m := 0; m < 3; m++ {
				x := math.Float32frombits(impl.v[m])
				if x < 0 || math.IsNaN(float64(x)) {
					st.ImplFailures = append(st.ImplFailures, implFailure{Case: i, What: fmt.Sprintf("%s %s distance is %v (%s)", impl.name, metrics[m], x, where),
						Key: fmt.Sprintf("%s:%s:not-a-distance:%s", impl.name, metrics[m], c15Cause(c, metrics[m])), Input: *c})
				}
				if c.Class == "same" && !(x <= float32(c.Len+8)*float32(math.Pow(2, -23))) {
					st.ImplFailures = append(st.ImplFailures, implFailure{Case: i, What: fmt.Sprintf("%s %s distance of a vector to itself is %v (%s)", impl.name, metrics[m], x, where),
						Key: fmt.Sprintf("%s:%s:self-distance", impl.name, metrics[m]), Input: *c})
				}
			}
		}
		h := hashOf([]interface{}{c.A, c.B, c.OffA, c.OffB, c.Guard})
		if c.Len >= 9 && (c.Len%8 != 0 || c.OffA != 0 || c.OffB != 0) && !seen[h] {
			seen[h] = true
			st.DistinctNontrivial++
		}
		if c.Avx != nil && c.Sse != nil && c.Len <= 40 {
			items = append(items, coqC15Case(*c))
		}
	}
	if len(cases) > 0 {
		st.Samples = append(st.Samples, map[string]interface{}{"len": cases[0].Len, "class": cases[0].Class, "native": cases[0].Native, "avx": cases[0].Avx, "sse": cases[0].Sse})
	}
	prelude := "From Coq Require Import ZArith List.\nImport ListNotations.\nFrom Verif Require Import Simd.Model Simd.Check.\n"
	defs := "Definition bad_model := Eval vm_compute in bad_idx simd_case_model_ok cases 0.\nDefinition bad_oracle := Eval vm_compute in bad_idx simd_case_oracle_ok cases 0.\nPrint bad_model. Print bad_oracle.\n"
	if err := writeShards(a.out, prelude, "simd_case", items, defs, 25); err != nil {
		return err
	}
	var kept []c15Case
	for _, c := range cases {
		if c.Avx != nil && c.Sse != nil && c.Len <= 40 {
			kept = append(kept, c)
		}
	}
	if err := writeJSON(a.out+"/cases.json", kept); err != nil {
		return err
	}
	return writeJSON(a.out+"/stats.json", st)
}

func coqC15Case(c c15Case) string {
	l := func(v []uint32) string {
		var xs []string
		for _, x := range v {
			xs = append(xs, fmt.Sprintf("%d", x))
		}
		return "[" + strings.Join(xs, "; ") + "]%Z"
	}
	aligned := c.OffA%4 == 0 && c.OffB%4 == 0
	if c.Guard {
		aligned = c.Len%4 == 0
	}
	return fmt.Sprintf("{| sc_a := %s; sc_b := %s; sc_aligned := %s; sc_native := %s; sc_avx := %s; sc_sse := %s |}", l(c.A), l(c.B), b(aligned), l(c.Native), l(c.Avx), l(c.Sse))
}
