package main

// C16 — placement: the real Allocator.getPartitionsNodeIds under a seeded math/rand, draws recovered by replaying
// the seed through rand.Shuffle with a recording swap.

import (
	"fmt"
	"math/rand"
	"strings"

	"github.com/marekgalovic/anndb/cluster"
	"github.com/marekgalovic/anndb/storage"
)

func init() { runners["C16"] = runC16 }

type placeCase struct {
	N       int        `json:"n"`
	P       int        `json:"p"`
	R       int        `json:"r"`
	Seed    int64      `json:"seed"`
	Members []uint64   `json:"members"`
	Draws   []int      `json:"draws"`
	Obs     [][]uint64 `json:"obs"`
	Crash   bool       `json:"crash,omitempty"`
}

func runPlaceCase(c *placeCase) {
	quietLogs()
	conn, _ := cluster.NewConn(c.Members[0], "a", "")
	for _, id := range c.Members {
		conn.AddNode(id, fmt.Sprintf("addr-%d", id))
	}
	rand.Seed(c.Seed)
	panicked, _ := recoverPanic(func() {
		c.Obs = storage.VerifPlacement(conn, uint(c.P), uint(c.R))
	})
	c.Crash = panicked
	// recover the draws: same seed, same sequence of Shuffle calls
	rand.Seed(c.Seed)
	c.Draws = nil
	for t := 0; t < c.P; t++ {
		rand.Shuffle(c.N, func(i, j int) { c.Draws = append(c.Draws, j) })
	}
}

func natList(xs []int) string {
	s := make([]string, len(xs))
	for i, x := range xs {
		s[i] = fmt.Sprint(x)
	}
	return "[" + strings.Join(s, "; ") + "]"
}
func u64List(xs []uint64) string {
	s := make([]string, len(xs))
	for i, x := range xs {
		s[i] = fmt.Sprint(x)
	}
	return "[" + strings.Join(s, "; ") + "]"
}

func runC16(a *args) error {
	r := newRng(a.seed)
	st := newStats("N in 1..16 members, R in 1..8, P in 1..64 (quick: P <= 24), seeded math/rand; draws recovered by replaying the seed; non-trivial = P >= 2 and N >= 2; distinct by (N,P,R,seed)")
	var cases []placeCase
	if a.replay != "" {
		var c placeCase
		if err := readReplayCase(a.replay, &c); err != nil {
			return err
		}
		cases = append(cases, c)
	} else {
		// corpus: the configuration observed on the code before the fix
		cases = append(cases, placeCase{N: 5, P: 4, R: 2, Seed: 7}, placeCase{N: 1, P: 3, R: 3, Seed: 1}, placeCase{N: 16, P: 64, R: 8, Seed: 3})
		maxP := 24
		if a.tier == "thorough" {
			maxP = 64
		}
		for len(cases) < a.n {
			cases = append(cases, placeCase{N: 1 + r.intn(16), P: 1 + r.intn(maxP), R: 1 + r.intn(8), Seed: int64(r.next() >> 1)})
		}
	}
	seen := map[string]bool{}
	var items []string
	allEqual := 0
	for i := range cases {
		c := &cases[i]
		if c.Members == nil {
			for k := 0; k < c.N; k++ {
				c.Members = append(c.Members, uint64(100+k*7))
			}
		}
		runPlaceCase(c)
		st.Evaluations++
		st.count(fmt.Sprintf("N:%d", c.N))
		st.count(fmt.Sprintf("R:%d", c.R))
		if c.Crash {
			st.count("crash")
		}
		key := fmt.Sprintf("%d/%d/%d/%d", c.N, c.P, c.R, c.Seed)
		if c.P >= 2 && c.N >= 2 && !seen[key] {
			seen[key] = true
			st.DistinctNontrivial++
		}
		if c.P >= 4 && c.N > c.R {
			eq := true
			for _, o := range c.Obs {
				if fmt.Sprint(o) != fmt.Sprint(c.Obs[0]) {
					eq = false
				}
			}
			if eq {
				allEqual++
			}
		}
		obs := make([]string, len(c.Obs))
		for k, o := range c.Obs {
			obs[k] = u64List(o)
		}
		items = append(items, fmt.Sprintf("{| pc_n := %d; pc_p := %d; pc_r := %d; pc_draws := %s;\n      pc_members := %s; pc_obs := [%s] |}",
			c.N, c.P, c.R, natList(c.Draws), u64List(c.Members), strings.Join(obs, "; ")))
	}
	st.Extra["cases_with_all_partitions_identical(P>=4,N>R)"] = allEqual
	for i := 0; i < len(cases) && i < 2; i++ {
		st.Samples = append(st.Samples, cases[i])
	}
	prelude := "From Verif Require Import Base.Prelude Cluster.Placement Generated.Facts.\n" +
		"Definition copies := match placement_copies with Known b => b | Unrecognised _ => true end.\n"
	defs := "Definition bad_model := Eval vm_compute in bad_idx (place_case_model_ok copies) cases 0.\n" +
		"Definition bad_oracle := Eval vm_compute in bad_idx place_case_oracle_ok cases 0.\n" +
		"Definition bad_oracle_indep := Eval vm_compute in bad_idx (place_case_model_ok true) cases 0.\n" +
		"Print bad_model.\nPrint bad_oracle.\nPrint bad_oracle_indep.\n"
	if err := writeShards(a.out, prelude, "place_case", items, defs, 20); err != nil {
		return err
	}
	if err := writeJSON(a.out+"/cases.json", cases); err != nil {
		return err
	}
	return writeJSON(a.out+"/stats.json", st)
}
