package main

// C16 — placement: the real Allocator.getPartitionsNodeIds under a seeded math/rand, draws recovered by replaying
// the seed through rand.Shuffle with a recording swap.

import (
	"context"
	"fmt"
	"math/rand"
	"strings"
	"time"

	"github.com/marekgalovic/anndb/cluster"
	pb "github.com/marekgalovic/anndb/protobuf"
	"github.com/marekgalovic/anndb/storage"
	"github.com/marekgalovic/anndb/storage/raft"
)

func init() { runners["C16"] = runC16 }

type placeCase struct {
	N       int        `json:"n"`
	P       int        `json:"p"`
	R       int        `json:"r"`
	Seed    int64      `json:"seed"`
	Members []uint64   `json:"members"`
	Draws   []int      `json:"draws"`
	Obs     [][]uint64 `json:"obs"`
	Crash   bool       `json:"crash,omitempty"`
}

func runPlaceCase(c *placeCase) {
	quietLogs()
	conn, _ := cluster.NewConn(c.Members[0], "a", "")
	for _, id := range c.Members {
		conn.AddNode(id, fmt.Sprintf("addr-%d", id))
	}
	// nodes that joined and left again before the dataset is created are not current members: one of them was dialled
	// while it was a member (a cached connection), the others never were
	for k := 0; k < int(uint64(c.Seed)%3); k++ {
		gone := uint64(900 + k)
		conn.AddNode(gone, "127.0.0.1:1")
		if k == 1 {
			conn.Dial(gone)
		}
		conn.RemoveNode(gone)
	}
	rand.Seed(c.Seed)
	panicked, _ := recoverPanic(func() {
		c.Obs = storage.VerifPlacement(conn, uint(c.P), uint(c.R))
	})
	c.Crash = panicked
	// recover the draws: same seed, same sequence of Shuffle calls
	rand.Seed(c.Seed)
	c.Draws = nil
	for t := 0; t < c.P; t++ {
		rand.Shuffle(c.N, func(i, j int) { c.Draws = append(c.Draws, j) })
	}
}

// applyGroup stands in for the zero group: a proposal is committed and applied at once (on another goroutine, as the
// ready loop would), so that DatasetManager.Create runs end to end.
type applyGroup struct {
	process, processSnapshot raft.ProcessFn
	snapshot                 raft.SnapshotFn
}

func (g *applyGroup) RegisterProcessFn(f raft.ProcessFn) error { g.process = f; return nil }
func (g *applyGroup) RegisterProcessSnapshotFn(f raft.ProcessFn) error {
	g.processSnapshot = f
	return nil
}
func (g *applyGroup) RegisterSnapshotFn(f raft.SnapshotFn) error { g.snapshot = f; return nil }
func (g *applyGroup) LeaderId() uint64                           { return 1 }
func (g *applyGroup) Propose(ctx context.Context, data []byte) error {
	d := append([]byte(nil), data...)
	go g.process(d)
	return nil
}

// createPlacement: the replica assignment that DatasetManager.Create writes into the catalogue entry under the same seed
func createPlacement(c *placeCase, parts int) ([][]uint64, error) {
	conn, _ := cluster.NewConn(c.Members[0], "a", "")
	for _, id := range c.Members {
		conn.AddNode(id, fmt.Sprintf("addr-%d", id))
	}
	dm, err := storage.NewDatasetManager(&applyGroup{}, sharedBadger(), raft.NewTransport(c.Members[0], "a", conn), conn, storage.NewAllocator(conn))
	if err != nil {
		return nil, err
	}
	rand.Seed(c.Seed)
	ctx, cancel := context.WithTimeout(context.Background(), 3*time.Second)
	defer cancel()
	ds, err := dm.Create(ctx, &pb.Dataset{Dimension: 2, Space: pb.Space_Euclidean, PartitionCount: uint32(parts), ReplicationFactor: uint32(c.R)})
	if err != nil {
		return nil, err
	}
	var out [][]uint64
	for _, p := range ds.Meta().GetPartitions() {
		out = append(out, append([]uint64(nil), p.GetNodeIds()...))
	}
	return out, nil
}

func createPlacementBad(c *placeCase, parts int, got [][]uint64) string {
	if len(got) != parts {
		return fmt.Sprintf("%d partitions stored, %d requested", len(got), parts)
	}
	want := c.R
	if c.N < want {
		want = c.N
	}
	member := map[uint64]bool{}
	for _, m := range c.Members {
		member[m] = true
	}
	for i, g := range got {
		seen := map[uint64]bool{}
		for _, id := range g {
			if !member[id] || seen[id] {
				return fmt.Sprintf("partition %d holds %v: not distinct current members", i, g)
			}
			seen[id] = true
		}
		if len(g) != want {
			return fmt.Sprintf("partition %d has %d replicas, want min(R,N) = %d", i, len(g), want)
		}
	}
	if c.N >= 4 {
		for d := 1; d <= c.N && parts-d >= 12; d++ {
			periodic := true
			for i := 0; i+d < parts; i++ {
				if fmt.Sprint(got[i]) != fmt.Sprint(got[i+d]) {
					periodic = false
					break
				}
			}
			if periodic {
				return fmt.Sprintf("partition i+%d always has the replica list of partition i: the partitions are not placed independently", d)
			}
		}
	}
	return ""
}

func natList(xs []int) string {
	s := make([]string, len(xs))
	for i, x := range xs {
		s[i] = fmt.Sprint(x)
	}
	return "[" + strings.Join(s, "; ") + "]"
}
func u64List(xs []uint64) string {
	s := make([]string, len(xs))
	for i, x := range xs {
		s[i] = fmt.Sprint(x)
	}
	return "[" + strings.Join(s, "; ") + "]"
}

func runC16(a *args) error {
	r := newRng(a.seed)
	st := newStats("N in 1..16 members (plus 0..2 nodes that joined and left again, dialled or not), R in 1..8, P in 1..64 (quick: P <= 24), seeded math/rand; draws recovered by replaying the seed; for every fourth case the real DatasetManager.Create runs (N+12.. partitions) and the replica assignment it stores is checked for validity and for period-d repetition; non-trivial = P >= 2 and N >= 2; distinct by (N,P,R,seed)")
	var cases []placeCase
	if a.replay != "" {
		var c placeCase
		if err := readReplayCase(a.replay, &c); err != nil {
			return err
		}
		cases = append(cases, c)
	} else {
		// corpus: the configuration observed on the code before the fix
		cases = append(cases, placeCase{N: 5, P: 4, R: 2, Seed: 7}, placeCase{N: 1, P: 3, R: 3, Seed: 1}, placeCase{N: 16, P: 64, R: 8, Seed: 3})
		maxP := 24
		if a.tier == "thorough" {
			maxP = 64
		}
		for len(cases) < a.n {
			cases = append(cases, placeCase{N: 1 + r.intn(16), P: 1 + r.intn(maxP), R: 1 + r.intn(8), Seed: int64(r.next() >> 1)})
		}
	}
	seen := map[string]bool{}
	var items []string
	allEqual := 0
	for i := range cases {
		c := &cases[i]
		if c.Members == nil {
			for k := 0; k < c.N; k++ {
				c.Members = append(c.Members, uint64(100+k*7))
			}
		}
		runPlaceCase(c)
		// what Create stores in the catalogue entry: the member order the allocator starts from is a map iteration, so the
		// stored assignment cannot be compared draw for draw; it must be a valid placement (min(R,N) distinct members per
		// partition) and, partitions being shuffled independently, must not repeat with a fixed period (for N >= 4 members
		// and >= 12 compared pairs an independent placement does so with probability below 16 * 4^-12)
		if i%4 == 0 && !c.Crash && a.replay == "" {
			parts := c.N + 12 + c.P%8
			got, err := createPlacement(c, parts)
			st.count("create-compared")
			if err != nil {
				st.ImplFailures = append(st.ImplFailures, implFailure{Case: i, What: "DatasetManager.Create failed: " + err.Error(), Key: "create-error", Input: *c})
			} else if why := createPlacementBad(c, parts, got); why != "" {
				st.ImplFailures = append(st.ImplFailures, implFailure{Case: i, What: fmt.Sprintf("N=%d R=%d P=%d seed=%d: Create stored the replica assignment %v: %s", c.N, c.R, parts, c.Seed, got, why), Key: "create-placement", Input: *c})
			}
		}
		st.Evaluations++
		st.count(fmt.Sprintf("N:%d", c.N))
		st.count(fmt.Sprintf("R:%d", c.R))
		if c.Crash {
			st.count("crash")
		}
		key := fmt.Sprintf("%d/%d/%d/%d", c.N, c.P, c.R, c.Seed)
		if c.P >= 2 && c.N >= 2 && !seen[key] {
			seen[key] = true
			st.DistinctNontrivial++
		}
		if c.P >= 4 && c.N > c.R {
			eq := true
			for _, o := range c.Obs {
				if fmt.Sprint(o) != fmt.Sprint(c.Obs[0]) {
					eq = false
				}
			}
			if eq {
				allEqual++
			}
		}
		obs := make([]string, len(c.Obs))
		for k, o := range c.Obs {
			obs[k] = u64List(o)
		}
		items = append(items, fmt.Sprintf("{| pc_n := %d; pc_p := %d; pc_r := %d; pc_draws := %s;\n      pc_members := %s; pc_obs := [%s] |}",
			c.N, c.P, c.R, natList(c.Draws), u64List(c.Members), strings.Join(obs, "; ")))
	}
	st.Extra["cases_with_all_partitions_identical(P>=4,N>R)"] = allEqual
	for i := 0; i < len(cases) && i < 2; i++ {
		st.Samples = append(st.Samples, cases[i])
	}
	prelude := "From Verif Require Import Base.Prelude Cluster.Placement Generated.Facts.\n" +
		"Definition copies := match placement_copies with Known b => b | Unrecognised _ => true end.\n"
	defs := "Definition bad_model := Eval vm_compute in bad_idx (place_case_model_ok copies) cases 0.\n" +
		"Definition bad_oracle := Eval vm_compute in bad_idx place_case_oracle_ok cases 0.\n" +
		"Definition bad_oracle_indep := Eval vm_compute in bad_idx (place_case_model_ok true) cases 0.\n" +
		"Print bad_model.\nPrint bad_oracle.\nPrint bad_oracle_indep.\n"
	if err := writeShards(a.out, prelude, "place_case", items, defs, 20); err != nil {
		return err
	}
	if err := writeJSON(a.out+"/cases.json", cases); err != nil {
		return err
	}
	return writeJSON(a.out+"/stats.json", st)
}
