package main

// C17 — Dataset.SizeInfo on a simulated cluster with some nodes unreachable; per-partition sizes taken from the
// hosting nodes' indexes; observed totals must be in the model's outcome set and equal the sums.

import (
	"context"
	"fmt"
	pb "github.com/marekgalovic/anndb/protobuf"
	"github.com/marekgalovic/anndb/storage"
	uuid "github.com/satori/go.uuid"
	"google.golang.org/grpc/codes"
	"google.golang.org/grpc/status"
	"strings"
	"time"
)

func init() { runners["C17"] = runC17 }

type szPart struct {
	Local bool   `json:"local"`
	Len   uint64 `json:"len"`
	Bytes uint64 `json:"bytes"`
	Fail  bool   `json:"fail"`
}
type szCase struct {
	Asked      uint64   `json:"asked"`
	Down       []uint64 `json:"down"`
	Parts      []szPart `json:"parts"`
	Obs        string   `json:"obs"`
	Len        uint64   `json:"len"`
	Bytes      uint64   `json:"bytes"`
	Determined bool     `json:"determined"`
}

func runC17(a *args) error {
	r := newRng(a.seed)
	st := newStats("simulated 3-node clusters, datasets of 2..5 partitions (2..6 in the thorough tier; one replica per partition, every third dataset with two replicas) populated with 15..60 items; SizeInfo asked on every node with a random set of failing nodes (plain transport error, gRPC Canceled as for a closing connection, DeadlineExceeded), each configuration repeated 6 times (goroutine timing varies); per-partition (len, bytes) taken from the hosting node's index; non-trivial = >= 2 remote partitions of different sizes; distinct by (dataset, asked, down)")
	nds, maxParts := 4, 5
	if a.tier == "thorough" {
		nds, maxParts = 16, 6
	}
	nodes := []uint64{1, 2, 3}
	var cases []szCase
	seen := map[string]bool{}
	for di := 0; di < nds; di++ {
		replicated := di%3 == 2
		// the model side enumerates every interleaving of the workers: its cost grows about 14-fold per partition
		// (0.07 s per case at 5, 0.9 s at 6, 13 s at 7), hence the cap
		d, err := buildSimData(r.fork(), nodes, 2+r.intn(maxParts-1), replicated, 15+r.intn(46))
		if err != nil {
			return err
		}
		per := a.n / nds
		for ci := 0; ci < per; ci++ {
			asked := nodes[r.intn(3)]
			var down []uint64
			if r.chance(1, 3) {
				for _, n := range nodes {
					if n != asked && r.chance(1, 2) {
						down = append(down, n)
					}
				}
			}
			isDown := map[uint64]bool{}
			for _, n := range down {
				isDown[n] = true
			}
			sc := szCase{Asked: asked, Down: down, Determined: !replicated}
			remoteSizes := map[uint64]bool{}
			for i, pl := range d.placement {
				host := d.c.nodes[pl[0]].datasets[d.id]
				ln, bs, _ := host.PartitionInfo(context.Background(), host.VerifPartitionId(i))
				local := false
				for _, n := range pl {
					if n == asked {
						local = true
					}
				}
				allDown := true
				for _, n := range pl {
					if !isDown[n] {
						allDown = false
					}
				}
				sc.Parts = append(sc.Parts, szPart{Local: local, Len: ln, Bytes: bs, Fail: !local && allDown})
				if !local {
					remoteSizes[ln] = true
				}
			}
			for rep := 0; rep < 6; rep++ {
				// a lookup can fail in several ways; whichever error the client returns, the partition's size was not obtained
				for _, n := range down {
					switch rep % 3 {
					case 0:
						d.c.nodes[n].setUnreachable(true)
					case 1: // what gRPC returns for a call on a connection being closed (a peer that has just left)
						d.c.nodes[n].setGate(func(string) error { return status.Error(codes.Canceled, "grpc: the client connection is closing") })
					case 2:
						d.c.nodes[n].setGate(func(string) error { return status.Error(codes.DeadlineExceeded, "context deadline exceeded") })
					}
				}
				ctx, cancel := context.WithTimeout(context.Background(), 2*time.Second)
				l, b, serr := d.c.nodes[asked].datasets[d.id].SizeInfo(ctx)
				cancel()
				for _, n := range down {
					d.c.nodes[n].setUnreachable(false)
					d.c.nodes[n].setGate(nil)
				}
				c := sc
				if serr != nil {
					c.Obs = "err"
				} else {
					c.Obs, c.Len, c.Bytes = "ok", l, b
				}
				// Go-side oracle for the undetermined (replicated) cases
				if !c.Determined && len(down) == 0 {
					var tl, tb uint64
					for _, p := range c.Parts {
						tl += p.Len
						tb += p.Bytes
					}
					if c.Obs != "ok" || c.Len != tl || c.Bytes != tb {
						st.ImplFailures = append(st.ImplFailures, implFailure{Case: len(cases), What: fmt.Sprintf("SizeInfo = (%s, %d, %d), partitions sum to (%d, %d)", c.Obs, c.Len, c.Bytes, tl, tb), Key: "sizeinfo-not-sum", Input: c})
					}
				}
				cases = append(cases, c)
				st.count("obs:" + c.Obs)
			}
			key := fmt.Sprintf("%d/%d/%v", di, asked, down)
			if len(remoteSizes) >= 2 && !seen[key] {
				seen[key] = true
				st.DistinctNontrivial++
			}
		}
		// a stale placement view: the asked node still believes partition 0 is on its old host, which has meanwhile been
		// told (by the catalogue) that the partition moved away and keeps only an abandoned copy. The old host must refuse
		// the lookup, so the call fails; it must not report a sum that misses or under-counts the partition
		if !replicated && a.replay == "" {
			oldHost := d.placement[0][0]
			var asked, newHost uint64
			for _, n := range nodes {
				if n != oldHost && asked == 0 {
					asked = n
				} else if n != oldHost {
					newHost = n
				}
			}
			moved := cloneDataset(d.meta)
			moved.Partitions[0].NodeIds = []uint64{newHost}
			hn := d.c.nodes[oldHost]
			stale, err := storage.VerifNewDataset(moved, hn.db, hn.transport, hn.conn)
			if err == nil {
				live := hn.datasets[d.id]
				hn.datasets[d.id] = stale
				hn.dm = storage.VerifNewDatasetManager(stale)
				ctx, cancel := context.WithTimeout(context.Background(), 2*time.Second)
				l, bts, serr := d.c.nodes[asked].datasets[d.id].SizeInfo(ctx)
				cancel()
				st.count(fmt.Sprintf("stale-view:err=%v", serr != nil))
				if serr == nil {
					st.ImplFailures = append(st.ImplFailures, implFailure{Case: -1, What: fmt.Sprintf("node %d no longer holds partition 0 (its catalogue says it moved to node %d) and node %d still asks it: SizeInfo returned (%d, %d) with no error instead of failing", oldHost, newHost, asked, l, bts), Key: "sizeinfo-stale-host-answers", Input: map[string]interface{}{"old_host": oldHost, "asked": asked}})
				}
				hn.datasets[d.id] = live
				hn.dm = storage.VerifNewDatasetManager(live)
			}
		}
		d.c.close()
	}
	if a.replay == "" {
		c17ListSizes(r.fork(), st)
		c17NoReplica(r.fork(), st)
	}
	var items []string
	var kept []szCase
	for _, c := range cases {
		st.Evaluations++
		if !c.Determined {
			continue
		}
		ps := make([]string, len(c.Parts))
		for i, p := range c.Parts {
			ps[i] = fmt.Sprintf("{| p_local := %s; p_len := %d; p_bytes := %d; p_fail := %s |}", b(p.Local), p.Len, p.Bytes, b(p.Fail))
		}
		obs := "SErr"
		if c.Obs == "ok" {
			obs = fmt.Sprintf("SOk %d %d", c.Len, c.Bytes)
		}
		items = append(items, fmt.Sprintf("{| zc_parts := [%s]; zc_obs := %s |}", strings.Join(ps, "; "), obs))
		kept = append(kept, c)
	}
	if len(kept) > 0 {
		st.Samples = append(st.Samples, kept[0])
	}
	prelude := "From Verif Require Import Base.Prelude Proto.SizeInfo Proto.Check Generated.Facts.\nOpen Scope N_scope.\n" +
		"Definition captures := match sizeinfo_captures_loopvar with Known b => b | Unrecognised _ => false end.\n"
	defs := "Definition bad_model := Eval vm_compute in bad_idx (sz_case_model_ok captures) cases 0.\n" +
		"Definition bad_oracle := Eval vm_compute in bad_idx sz_case_oracle_ok cases 0.\nPrint bad_model.\nPrint bad_oracle.\n"
	if err := writeShards(a.out, prelude, "sz_case", items, defs, 60); err != nil {
		return err
	}
	if err := writeJSON(a.out+"/cases.json", kept); err != nil {
		return err
	}
	return writeJSON(a.out+"/stats.json", st)
}

// c17ListSizes: the catalogue's listing with sizes (what `datasets list` shows): several datasets of different sizes,
// partitions on the asked node and on another one; every listed dataset carries the item count of its own partitions.
func c17ListSizes(r *rng, st *stats) {
	c := newSimCluster([]uint64{1, 2})
	defer c.close()
	want := map[string]uint64{}
	for k := 0; k < 5; k++ {
		meta := newDatasetMeta(r, 2, pb.Space_Euclidean, [][]uint64{{1}, {2}}, 1)
		if err := c.createDataset(meta); err != nil {
			st.count("list-sizes:setup-failed")
			return
		}
		id := uuid.FromBytesOrNil(meta.Id)
		n := 3*k + 1
		for i := 0; i < n; i++ {
			ctx, cancel := context.WithTimeout(context.Background(), 2*time.Second)
			err := c.nodes[1].datasets[id].Insert(ctx, uuidFrom(r), []float32{float32(i), float32(k)}, nil)
			cancel()
			if err != nil {
				st.count("list-sizes:setup-failed")
				return
			}
		}
		want[id.String()] = uint64(n)
	}
	for round := 0; round < 3; round++ {
		ctx, cancel := context.WithTimeout(context.Background(), 3*time.Second)
		ds, err := c.nodes[1].dm.List(ctx, true)
		cancel()
		if err != nil {
			st.ImplFailures = append(st.ImplFailures, implFailure{Case: -1, What: "List with sizes failed on a healthy two-node cluster: " + err.Error(), Key: "list-sizes-error", Input: nil})
			return
		}
		got := map[string]uint64{}
		for _, d := range ds {
			got[uuid.FromBytesOrNil(d.GetId()).String()] = d.GetSize()
		}
		st.count("list-sizes")
		if fmt.Sprint(got) != fmt.Sprint(want) {
			st.ImplFailures = append(st.ImplFailures, implFailure{Case: -1, What: fmt.Sprintf("List with sizes reports %v, the datasets hold %v items", got, want), Key: "list-sizes-not-own-sum", Input: map[string]interface{}{"datasets": len(want)}})
			return
		}
	}
}

// c17NoReplica: a partition that has lost its last replica (the catalogue lists no node for it) cannot be sized: the
// call fails, it does not report the sum of the others.
func c17NoReplica(r *rng, st *stats) {
	c := newSimCluster([]uint64{1, 2})
	defer c.close()
	meta := newDatasetMeta(r, 2, pb.Space_Euclidean, [][]uint64{{1}, {2}, {}}, 1)
	if err := c.createDataset(meta); err != nil {
		st.count("no-replica:setup-failed")
		return
	}
	id := uuid.FromBytesOrNil(meta.Id)
	for _, asked := range []uint64{1, 2} {
		ctx, cancel := context.WithTimeout(context.Background(), 2*time.Second)
		l, b, err := c.nodes[asked].datasets[id].SizeInfo(ctx)
		cancel()
		st.count(fmt.Sprintf("no-replica:err=%v", err != nil))
		if err == nil {
			st.ImplFailures = append(st.ImplFailures, implFailure{Case: -1, What: fmt.Sprintf("a dataset with a partition that has no replica left: SizeInfo through node %d returned (%d, %d) with no error", asked, l, b), Key: "sizeinfo-partition-without-replica", Input: map[string]interface{}{"asked": asked}})
		}
	}
}
