package main

// C18 — the node's control plane under bursts: a real cluster.Conn, a real storage.Allocator (its loop running) and a
// real storage.DatasetManager; one goroutine plays the zero group's apply loop and feeds them a backlog of membership
// changes and catalogue entries as a restart replays them; whatever the allocator proposes is appended behind the
// backlog (as raft would).  A watchdog decides whether the backlog is applied; a wedged process is diagnosed from its
// goroutine dump.  Every case runs in a child process.

import (
	"context"
	"encoding/json"
	"fmt"
	"runtime"
	"strings"
	"sync"
	"time"

	"github.com/coreos/etcd/raft/raftpb"
	"github.com/golang/protobuf/proto"
	"github.com/marekgalovic/anndb/cluster"
	pb "github.com/marekgalovic/anndb/protobuf"
	"github.com/marekgalovic/anndb/storage"
	"github.com/marekgalovic/anndb/storage/raft"
	uuid "github.com/satori/go.uuid"
)

func init() { runners["C18"] = runC18 }

type c18Op struct {
	Kind  string `json:"kind"` // node-add node-remove create delete
	Node  uint64 `json:"node,omitempty"`
	Ds    int    `json:"ds,omitempty"`    // index into the case's dataset pool
	Self  bool   `json:"self,omitempty"`  // create: first replica of the partitions is this node (it may then modify them)
	Repl  uint32 `json:"repl,omitempty"`  // create: replication factor (under-replicated if > replicas)
	Parts int    `json:"parts,omitempty"` // create: partitions
}
type c18Case struct {
	Backlog []c18Op `json:"backlog"`
	Note    string  `json:"note,omitempty"`
	// observed
	Applied   int    `json:"applied"`
	Proposals int    `json:"proposals"`
	Millis    int64  `json:"millis"`
	Wedged    bool   `json:"wedged"`
	Where     string `json:"where,omitempty"`
}

// tailGroup implements raft.Group: proposals are queued behind the backlog and applied by the same loop.
type tailGroup struct {
	process, processSnapshot raft.ProcessFn
	snapshot                 raft.SnapshotFn
	mu                       sync.Mutex
	tail                     [][]byte
	n                        int
}

func (g *tailGroup) RegisterProcessFn(f raft.ProcessFn) error { g.process = f; return nil }
func (g *tailGroup) RegisterProcessSnapshotFn(f raft.ProcessFn) error {
	g.processSnapshot = f
	return nil
}
func (g *tailGroup) RegisterSnapshotFn(f raft.SnapshotFn) error { g.snapshot = f; return nil }
func (g *tailGroup) LeaderId() uint64                           { return 1 }
func (g *tailGroup) Propose(ctx context.Context, data []byte) error {
	g.mu.Lock()
	g.tail = append(g.tail, append([]byte(nil), data...))
	g.n++
	g.mu.Unlock()
	return nil
}
func (g *tailGroup) pop() []byte {
	g.mu.Lock()
	defer g.mu.Unlock()
	if len(g.tail) == 0 {
		return nil
	}
	d := g.tail[0]
	g.tail = g.tail[1:]
	return d
}

var quietRounds = 30

func runC18Case(c *c18Case, st *stats, idx int) {
	conn, _ := cluster.NewConn(1, "sim-1", "")
	tr := raft.NewTransport(1, "sim-1", conn)
	alloc := storage.NewAllocator(conn)
	g := &tailGroup{}
	dm, err := storage.NewDatasetManager(g, sharedBadger(), tr, conn, alloc)
	if err != nil {
		st.ImplFailures = append(st.ImplFailures, implFailure{Case: idx, What: err.Error(), Key: "setup-error", Input: *c})
		return
	}
	r := newRng(uint64(1800 + idx))
	pool := map[int]*pb.Dataset{}
	mk := func(op c18Op) *pb.Dataset {
		if d, ok := pool[op.Ds]; ok {
			return d
		}
		d := &pb.Dataset{Id: uuidFrom(r).Bytes(), Dimension: 2, Space: pb.Space_Euclidean, PartitionCount: uint32(op.Parts), ReplicationFactor: op.Repl}
		for p := 0; p < op.Parts; p++ {
			first := uint64(7)
			if op.Self {
				first = 1
			}
			d.Partitions = append(d.Partitions, &pb.Partition{Id: uuidFrom(r).Bytes(), NodeIds: []uint64{first}})
		}
		pool[op.Ds] = d
		return d
	}
	entry := func(t pb.DatasetManagerChangeType, data []byte) []byte {
		_, nid := dm.VerifNotificator().Create(1)
		defer dm.VerifNotificator().Remove(nid)
		bs, _ := proto.Marshal(&pb.DatasetManagerChange{Type: t, NotificationId: nid.Bytes(), Data: data})
		return bs
	}
	nodeOps, selfParts := 0, 0
	for _, op := range c.Backlog {
		switch {
		case op.Kind == "node-add" || op.Kind == "node-remove":
			nodeOps++
		case op.Kind == "create" && op.Self && op.Repl >= 2:
			selfParts += op.Parts
		}
	}
	budget := 8*time.Second + time.Duration(nodeOps*selfParts)*5500*time.Millisecond
	start := time.Now()
	applied := make(chan int, 1)
	probeOk := make(chan bool, 1)
	probeSkipped := make(chan bool, 1)
	progress := make(chan int, 1024)
	go func() { // the zero group's apply loop
		for i, op := range c.Backlog {
			switch op.Kind {
			case "node-add":
				conn.AddNode(op.Node, fmt.Sprintf("sim-%d", op.Node)) // RaftGroup.processConfChange -> transport.addNodeAddress
			case "node-remove":
				conn.RemoveNode(op.Node)
			case "create":
				data, _ := proto.Marshal(mk(op))
				g.process(entry(pb.DatasetManagerChangeType_DatasetManagerCreateDataset, data))
			case "delete":
				if d, ok := pool[op.Ds]; ok {
					g.process(entry(pb.DatasetManagerChangeType_DatasetManagerDeleteDataset, d.Id))
				}
			case "restore":
				// a catalogue snapshot arrives (a lagging member is brought up to date by the leader): the catalogue as it
				// is now, installed over the datasets the node already holds
				if bs, err := g.snapshot(); err == nil {
					g.processSnapshot(bs)
				}
			}
			select {
			case progress <- i + 1:
			default:
			}
		}
		// then whatever the allocator proposed, until it stays quiet
		quiet := 0
		for quiet < quietRounds {
			if d := g.pop(); d != nil {
				g.process(d)
				quiet = 0
			} else {
				quiet++
				time.Sleep(20 * time.Millisecond)
			}
		}
		// keeps serving: a dataset created now, with its partition on this node, gets its raft group loaded by the
		// allocator loop (which therefore has not stopped taking work).  Every membership change makes the loop try a
		// configuration change on each partition it may modify; on a group that has lost its quorum to members that
		// do not exist here such a call ends only after 5 x 1 s, so the probe is run where that bound stays small
		if budget > 25*time.Second {
			probeOk <- true
			probeSkipped <- true
			applied <- len(c.Backlog)
			return
		}
		probeSkipped <- false
		probe := &pb.Dataset{Id: uuidFrom(r).Bytes(), Dimension: 2, Space: pb.Space_Euclidean, PartitionCount: 1, ReplicationFactor: 1,
			Partitions: []*pb.Partition{{Id: uuidFrom(r).Bytes(), NodeIds: []uint64{1}}}}
		pdata, _ := proto.Marshal(probe)
		g.process(entry(pb.DatasetManagerChangeType_DatasetManagerCreateDataset, pdata))
		loaded := false
		for deadline := time.Now().Add(budget); !loaded && time.Now().Before(deadline); {
			if d := g.pop(); d != nil {
				g.process(d)
			}
			if ds, err := dm.Get(uuid.FromBytesOrNil(probe.Id)); err == nil && ds.VerifRaft(0) != nil {
				loaded = true
			}
			time.Sleep(5 * time.Millisecond)
		}
		probeOk <- loaded
		applied <- len(c.Backlog)
	}()
	limit := 25 * time.Second
	if budget <= 25*time.Second {
		limit += budget
	}
	select {
	case n := <-applied:
		c.Applied = n
		if <-probeSkipped {
			st.count("serving-probe:skipped")
		} else {
			st.count("serving-probe:run")
		}
		if ok := <-probeOk; !ok {
			buf := make([]byte, 1<<20)
			buf = buf[:runtime.Stack(buf, true)]
			c.Where = c18Diagnose(string(buf))
			st.ImplFailures = append(st.ImplFailures, implFailure{Case: idx, What: "after the backlog was applied the node no longer serves: a dataset created now does not get its partition loaded within the time every pending configuration change may take: " + c.Where, Key: "allocator-stopped-serving", Input: *c})
		}
	case <-time.After(limit):
		c.Wedged = true
		last := 0
		for {
			select {
			case last = <-progress:
				continue
			default:
			}
			break
		}
		c.Applied = last
		buf := make([]byte, 1<<20)
		buf = buf[:runtime.Stack(buf, true)]
		c.Where = c18Diagnose(string(buf))
	}
	c.Millis = time.Since(start).Milliseconds()
	g.mu.Lock()
	c.Proposals = g.n
	g.mu.Unlock()
	if c.Wedged {
		st.ImplFailures = append(st.ImplFailures, implFailure{Case: idx, What: fmt.Sprintf("the apply loop stopped after %d of %d backlog entries and made no progress for %s: %s", c.Applied, len(c.Backlog), limit, c.Where), Key: "control-plane-wedged", Input: *c})
	}
}

// c18Diagnose names the blocking operations of the apply loop and the allocator loop from a goroutine dump.
func c18Diagnose(dump string) string {
	var out []string
	for _, g := range strings.Split(dump, "\n\n") {
		role := ""
		switch {
		case strings.Contains(g, "main.runC18Case.func"):
			role = "apply loop"
		case strings.Contains(g, "storage.(*Allocator).run"):
			role = "allocator loop"
		default:
			continue
		}
		lines := strings.Split(g, "\n")
		state := ""
		if i := strings.Index(lines[0], "["); i >= 0 {
			state = strings.Trim(lines[0][i:], "[]:")
		}
		var fr []string
		for _, l := range lines[1:] {
			if strings.HasPrefix(l, "github.com/marekgalovic/anndb/") {
				f := strings.TrimPrefix(l, "github.com/marekgalovic/anndb/")
				if k := strings.Index(f, "("); k > 0 && !strings.HasPrefix(f, "storage.(") && !strings.HasPrefix(f, "cluster.(") {
					f = f[:k]
				}
				if k := strings.LastIndex(f, "("); k > 0 {
					f = f[:k]
				}
				fr = append(fr, f)
				if len(fr) == 3 {
					break
				}
			}
		}
		out = append(out, fmt.Sprintf("%s blocked in %s at %s", role, state, strings.Join(fr, " <- ")))
	}
	return strings.Join(out, "; ")
}

func c18Scripts(r *rng, n int) []c18Case {
	var cs []c18Case
	add := func(note string, ops ...c18Op) { cs = append(cs, c18Case{Backlog: ops, Note: note}) }
	// a restart replays: the members joining, then the datasets
	add("a member joins, then datasets are created",
		c18Op{Kind: "node-add", Node: 2}, c18Op{Kind: "create", Ds: 0, Self: true, Repl: 2, Parts: 2}, c18Op{Kind: "create", Ds: 1, Self: true, Repl: 2, Parts: 1})
	add("datasets first, then members join and leave",
		c18Op{Kind: "create", Ds: 0, Self: true, Repl: 3, Parts: 2}, c18Op{Kind: "node-add", Node: 2}, c18Op{Kind: "create", Ds: 1, Self: true, Repl: 3, Parts: 2},
		c18Op{Kind: "node-add", Node: 3}, c18Op{Kind: "node-remove", Node: 2}, c18Op{Kind: "create", Ds: 2, Self: false, Repl: 1, Parts: 3}, c18Op{Kind: "delete", Ds: 0})
	// a dataset is deleted while the allocator is still proposing replica changes for its partitions: the proposals
	// that arrive after the deletion must still be answered, or the allocator loop waits for ever
	add("a member joins, the dataset it was being added to is deleted at once",
		c18Op{Kind: "create", Ds: 0, Self: true, Repl: 2, Parts: 3}, c18Op{Kind: "node-add", Node: 2}, c18Op{Kind: "delete", Ds: 0})
	add("two datasets, one deleted between the proposals of a join",
		c18Op{Kind: "create", Ds: 0, Self: true, Repl: 2, Parts: 2}, c18Op{Kind: "create", Ds: 1, Self: true, Repl: 2, Parts: 1},
		c18Op{Kind: "node-add", Node: 2}, c18Op{Kind: "delete", Ds: 0}, c18Op{Kind: "delete", Ds: 1})
	add("a catalogue snapshot is installed over datasets the node already holds, between membership changes and further entries",
		c18Op{Kind: "create", Ds: 0, Self: true, Repl: 2, Parts: 2}, c18Op{Kind: "node-add", Node: 2}, c18Op{Kind: "restore"},
		c18Op{Kind: "create", Ds: 1, Self: true, Repl: 2, Parts: 1}, c18Op{Kind: "restore"}, c18Op{Kind: "delete", Ds: 0})
	var burst []c18Op
	burst = append(burst, c18Op{Kind: "create", Ds: 0, Self: true, Repl: 2, Parts: 1})
	for i := uint64(2); i <= 41; i++ {
		burst = append(burst, c18Op{Kind: "node-add", Node: i})
	}
	burst = append(burst, c18Op{Kind: "create", Ds: 1, Self: true, Repl: 2, Parts: 1})
	cs = append(cs, c18Case{Backlog: burst, Note: "forty membership changes (more than any bounded channel or backlog in the path holds) around dataset creation"})
	for len(cs) < n {
		var ops []c18Op
		ln := 4 + r.intn(14)
		nextNode, nextDs := uint64(2), 0
		var members []uint64
		var dss []int
		for len(ops) < ln {
			switch k := r.intn(10); {
			case k < 4:
				ops = append(ops, c18Op{Kind: "node-add", Node: nextNode})
				members = append(members, nextNode)
				nextNode++
			case k < 5 && len(members) > 0:
				j := r.intn(len(members))
				ops = append(ops, c18Op{Kind: "node-remove", Node: members[j]})
				members = append(members[:j], members[j+1:]...)
			case k < 9:
				ops = append(ops, c18Op{Kind: "create", Ds: nextDs, Self: r.intn(4) != 0, Repl: uint32(1 + r.intn(3)), Parts: 1 + r.intn(3)})
				dss = append(dss, nextDs)
				nextDs++
			case len(dss) > 0 && r.intn(3) == 0:
				ops = append(ops, c18Op{Kind: "restore"})
			case len(dss) > 0:
				j := r.intn(len(dss))
				ops = append(ops, c18Op{Kind: "delete", Ds: dss[j]})
				dss = append(dss[:j], dss[j+1:]...)
			}
		}
		cs = append(cs, c18Case{Backlog: ops, Note: "generated"})
	}
	return cs[:n]
}

func coqC18Case(c c18Case) string {
	var ops []string
	watched := 0
	parts := map[int]int{}
	for _, op := range c.Backlog {
		switch op.Kind {
		case "node-add", "node-remove":
			// the allocator makes at most one proposal per watched partition for a membership change
			ops = append(ops, fmt.Sprintf("ZConf %d", watched))
		case "create":
			if _, dup := parts[op.Ds]; !dup {
				parts[op.Ds] = op.Parts
				watched += op.Parts
			}
			ops = append(ops, fmt.Sprintf("ZUpd %d", op.Parts))
		case "delete":
			n := parts[op.Ds]
			delete(parts, op.Ds)
			watched -= n
			ops = append(ops, fmt.Sprintf("ZUpd %d", n))
		case "restore":
			// a catalogue snapshot over the datasets already held: an entry that queues nothing for the allocator
			ops = append(ops, "ZUpd 0")
		}
	}
	return fmt.Sprintf("{| wc_backlog := [%s]; wc_finished := %s |}", strings.Join(ops, "; "), b(!c.Wedged))
}

const c18Prelude = "From Verif Require Import Base.Prelude Proto.Control Generated.Facts Properties.C18.\n"
const c18Defs = `Definition bad_model := Eval vm_compute in bad_idx (ctl_case_model_ok design_now) cases 0.
Definition bad_oracle := Eval vm_compute in bad_idx ctl_case_oracle_ok cases 0.
Print bad_model. Print bad_oracle.
`

func runC18(a *args) error {
	quietLogs()
	isoVmemKB = 8000000
	if a.tier == "thorough" {
		quietRounds = 120 // long enough for the partition groups to elect, so that every proposal of the allocator is made
	}
	r := newRng(a.seed)
	st := newStats("backlogs of membership notifications (Conn.AddNode / RemoveNode as the zero group applies them) and catalogue entries (create / delete through DatasetManager.process) fed by one goroutine to a real Conn + Allocator (loop running) + DatasetManager; the allocator's own proposals are queued behind the backlog; scripted restarts (members then datasets, datasets then churn, a burst of 40 joins around creations) plus generated backlogs of 4..17 entries; watchdog 25 s; plus a stress of the membership book (1500 join/leave pairs applied while 8 goroutines dial peers and a subscriber reads the member list, watchdog 20 s); afterwards a probe dataset must get its partition loaded by the allocator loop (run where pending configuration changes are bounded by 25 s); non-trivial = backlog mixes both kinds and the allocator made >= 1 proposal; distinct by hash of the backlog")
	var cases []c18Case
	if a.replay != "" {
		var c c18Case
		if err := readReplayCase(a.replay, &c); err != nil {
			return err
		}
		cases = append(cases, c18Case{Backlog: c.Backlog, Note: c.Note})
		runC18Case(&cases[0], st, 0)
		st.Samples = append(st.Samples, cases[0])
		st.Evaluations = 1
	} else {
		cases = c18Scripts(r, a.n)
		type out struct {
			cst     *stats
			crashed bool
			tail    string
		}
		res := make([]out, len(cases))
		sem := make(chan struct{}, 8)
		var wg sync.WaitGroup
		for i := range cases {
			wg.Add(1)
			sem <- struct{}{}
			go func(i int) {
				defer wg.Done()
				defer func() { <-sem }()
				cst, crashed, tail := runIsolated("C18", cases[i], a, i)
				res[i] = out{cst, crashed, tail}
			}(i)
		}
		wg.Wait()
		seen := map[string]bool{}
		for i := range cases {
			o := res[i]
			if o.crashed {
				st.ImplFailures = append(st.ImplFailures, implFailure{Case: i, What: "the node process died while applying this backlog: " + o.tail, Key: "control-plane-crash", Input: cases[i]})
				cases[i].Wedged = true
				continue
			}
			for _, f := range o.cst.ImplFailures {
				f.Case = i
				st.ImplFailures = append(st.ImplFailures, f)
			}
			if len(o.cst.Samples) > 0 {
				var oc c18Case
				bs, _ := json.Marshal(o.cst.Samples[0])
				if json.Unmarshal(bs, &oc) == nil {
					cases[i] = oc
				}
			}
			st.Evaluations++
			c := cases[i]
			st.count(fmt.Sprintf("backlog<=%d", (len(c.Backlog)/5+1)*5))
			if c.Proposals > 0 {
				st.count("allocator-proposed")
			}
			kinds := map[string]bool{}
			for _, op := range c.Backlog {
				kinds[strings.Split(op.Kind, "-")[0]] = true
			}
			h := hashOf(c.Backlog)
			if kinds["node"] && (kinds["create"] || kinds["delete"]) && c.Proposals > 0 && !seen[h] {
				seen[h] = true
				st.DistinctNontrivial++
			}
		}
		if len(cases) > 0 {
			st.Samples = append(st.Samples, map[string]interface{}{"backlog": cases[0].Backlog, "applied": cases[0].Applied, "proposals": cases[0].Proposals, "millis": cases[0].Millis})
		}
	}
	if a.replay == "" {
		c18ConnStress(st)
		c18TransportDelivery(r.fork(), st)
	}
	var items []string
	for _, c := range cases {
		items = append(items, coqC18Case(c))
	}
	if err := writeShards(a.out, c18Prelude, "ctl_case", items, c18Defs, 100); err != nil {
		return err
	}
	if err := writeJSON(a.out+"/cases.json", cases); err != nil {
		return err
	}
	return writeJSON(a.out+"/stats.json", st)
}

// c18ConnStress: the membership book under the load a restart or a churning cluster puts on it - the zero group's apply
// loop adding and removing peers, a subscriber reacting to every notification by reading the member list (as the
// allocator loop does), and raft / dataset clients dialling peers that have no cached connection. Whatever the
// interleaving, the apply loop must get through its entries.
func c18ConnStress(st *stats) {
	conn, _ := cluster.NewConn(1, "sim-1", "")
	stop := make(chan struct{})
	notif := conn.NodeChangesNotifications()
	go func() { // subscriber
		for {
			select {
			case <-notif:
				conn.NodeIds()
			case <-stop:
				return
			}
		}
	}()
	for d := 0; d < 8; d++ { // dialers
		go func(d int) {
			for i := 0; ; i++ {
				select {
				case <-stop:
					return
				default:
				}
				if c, err := conn.Dial(uint64(2 + (i+d)%6)); err == nil && c != nil && i%64 == 0 {
					conn.Nodes()
				}
			}
		}(d)
	}
	pairs := 1500
	done := make(chan int, 1)
	progress := make(chan int, pairs+1)
	go func() { // the apply loop
		for i := 0; i < pairs; i++ {
			id := uint64(2 + i%6)
			conn.AddNode(id, fmt.Sprintf("127.0.0.1:%d", 19000+i%6))
			conn.RemoveNode(id)
			progress <- i + 1
		}
		done <- pairs
	}()
	select {
	case <-done:
		st.count("conn-stress:finished")
	case <-time.After(20 * time.Second):
		last := 0
		for more := true; more; {
			select {
			case last = <-progress:
			default:
				more = false
			}
		}
		buf := make([]byte, 1<<20)
		buf = buf[:runtime.Stack(buf, true)]
		where := ""
		for _, g := range strings.Split(string(buf), "\n\n") {
			if strings.Contains(g, "cluster.(*Conn).") && (strings.Contains(g, "semacquire") || strings.Contains(g, "sync.(*RWMutex)") || strings.Contains(g, "sync.(*Mutex)")) {
				var fr []string
				for _, l := range strings.Split(g, "\n") {
					if strings.HasPrefix(l, "github.com/marekgalovic/anndb/cluster.(*Conn).") {
						f := strings.TrimPrefix(l, "github.com/marekgalovic/anndb/cluster.(*Conn).")
						if k := strings.Index(f, "("); k > 0 {
							f = f[:k]
						}
						fr = append(fr, f)
					}
				}
				if len(fr) > 0 && !strings.Contains(where, strings.Join(fr, "<-")) {
					where += " [" + strings.Join(fr, "<-") + "]"
				}
			}
		}
		st.ImplFailures = append(st.ImplFailures, implFailure{Case: -1, What: fmt.Sprintf("membership changes applied while peers are being dialled and the member list is read: the apply loop stopped after %d of %d join/leave pairs and made no progress for 20 s; goroutines blocked on the book's locks in:%s", last, pairs, where), Key: "membership-book-wedged", Input: map[string]interface{}{"pairs": pairs, "dialers": 8}})
	}
	close(stop)
}

// c18TransportDelivery: a peer's forwarded proposal reaches a replica that knows no leader (cut off, or just restarted):
// raft holds that delivery until a leader is known. Meanwhile the node's control loops must still be able to load
// and unload raft groups (allocator loop / zero group's apply loop -> partition.loadRaft / unloadRaft) and the transport
// must still deliver messages of other groups.
func c18TransportDelivery(r *rng, st *stats) {
	c := newSimCluster([]uint64{1, 2, 3})
	defer c.close()
	meta := newDatasetMeta(r, 2, pb.Space_Euclidean, [][]uint64{{1, 2, 3}, {1, 2}, {1, 2}}, 3)
	if err := c.createDataset(meta); err != nil {
		st.ImplFailures = append(st.ImplFailures, implFailure{Case: -1, What: "transport scenario: the simulated cluster could not be set up: " + err.Error(), Key: "cluster-setup", Input: nil})
		return
	}
	dsid := uuid.FromBytesOrNil(meta.Id)
	ds3 := c.nodes[3].datasets[dsid]
	g := ds3.VerifRaft(0)
	c.nodes[3].setUnreachable(true)
	deadline := time.Now().Add(8 * time.Second)
	for time.Now().Before(deadline) && g.VerifStatus().Lead != 0 {
		time.Sleep(20 * time.Millisecond)
	}
	if g.VerifStatus().Lead != 0 {
		st.count("transport-delivery:replica-kept-its-leader")
		return
	}
	prop := raftpb.Message{Type: raftpb.MsgProp, From: 1, To: 3, Entries: []raftpb.Entry{{Data: []byte("x")}}}
	pbytes, _ := prop.Marshal()
	go c.nodes[3].transport.VerifReceive(context.Background(), &pb.RaftMessage{GroupId: meta.Partitions[0].Id, Message: pbytes})
	time.Sleep(150 * time.Millisecond)
	type step struct {
		what string
		f    func() error
	}
	steps := []step{
		{"load the raft group of partition 1", func() error { return ds3.VerifLoadRaft(1, []uint64{3}) }},
		{"deliver a heartbeat of that group", func() error {
			hb := raftpb.Message{Type: raftpb.MsgHeartbeat, From: 3, To: 3, Term: 1}
			hbytes, _ := hb.Marshal()
			ctx, cancel := context.WithTimeout(context.Background(), 2*time.Second)
			defer cancel()
			_, err := c.nodes[3].transport.VerifReceive(ctx, &pb.RaftMessage{GroupId: meta.Partitions[1].Id, Message: hbytes})
			return err
		}},
		{"unload the raft group of partition 1", func() error { return ds3.VerifUnloadRaft(1) }},
	}
	for _, s := range steps {
		done := make(chan error, 1)
		f := s.f
		go func() { done <- f() }()
		select {
		case <-done:
			st.count("transport-delivery:" + s.what + ":done")
		case <-time.After(6 * time.Second):
			buf := make([]byte, 1<<20)
			buf = buf[:runtime.Stack(buf, true)]
			where := ""
			for _, gr := range strings.Split(string(buf), "\n\n") {
				if strings.Contains(gr, "raft.(*RaftTransport).") && (strings.Contains(gr, "sync.(*RWMutex)") || strings.Contains(gr, "sync.(*Mutex)")) {
					for _, l := range strings.Split(gr, "\n") {
						if strings.HasPrefix(l, "github.com/marekgalovic/anndb/storage/raft.(*RaftTransport).") {
							f := strings.TrimPrefix(l, "github.com/marekgalovic/anndb/storage/raft.(*RaftTransport).")
							if k := strings.Index(f, "("); k > 0 {
								f = f[:k]
							}
							if !strings.Contains(where, f) {
								where += " " + f
							}
						}
					}
				}
			}
			st.ImplFailures = append(st.ImplFailures, implFailure{Case: -1, What: fmt.Sprintf("a forwarded proposal is waiting in a replica that knows no leader (node 3 cut off); the node then could not %s within 6 s; goroutines blocked on the transport's lock in:%s", s.what, where), Key: "transport-wedged-by-delivery", Input: map[string]interface{}{"step": s.what}})
			c.nodes[3].setUnreachable(false)
			return
		}
	}
	c.nodes[3].setUnreachable(false)
}
