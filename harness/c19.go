package main

// C19 — priority queues: scripts over several queue handles, state-level observations (ToSlice after ops).

import (
	"fmt"
	"math"
	"strings"

	"github.com/marekgalovic/anndb/utils"
)

func init() { runners["C19"] = runC19 }

type pqOp struct {
	Op   string  `json:"op"` // new push pop peek reverse slice len
	H    int     `json:"h"`
	H2   int     `json:"h2,omitempty"`
	Max  bool    `json:"max,omitempty"`
	Prio float32 `json:"prio,omitempty"`
	Val  int     `json:"val,omitempty"`
}

type pqObs struct {
	Kind  string     `json:"kind"`            // none crash items len
	Items [][2]int64 `json:"items,omitempty"` // (priority bits as signed order key, value)
	Len   int        `json:"len,omitempty"`
}

type pqCase struct {
	Ops []pqOp  `json:"ops"`
	Obs []pqObs `json:"obs"`
}

// order-preserving integer image of a float32 priority (non-negative floats: the bit pattern; negative: minus bits)
func prioKey(p float32) int64 {
	bits := math.Float32bits(p)
	if bits&0x80000000 != 0 {
		return -int64(bits & 0x7fffffff)
	}
	return int64(bits)
}

func itemObs(it *utils.PriorityQueueItem) [2]int64 {
	return [2]int64{prioKey(it.Priority()), int64(it.Value().(int))}
}

// runPQScript runs a script; with [ctor] the pushes that directly follow a "new" on the same handle are handed to the
// constructor as initial items instead (NewMin/MaxPriorityQueue(items...)): the same queue by specification.
func runPQScript(ops []pqOp, ctor bool) []pqObs {
	qs := map[int]utils.PriorityQueue{}
	obs := make([]pqObs, 0, len(ops))
	skip := 0
	for oi, o := range ops {
		if skip > 0 {
			skip--
			obs = append(obs, pqObs{Kind: "none"})
			continue
		}
		if ctor && o.Op == "new" {
			var init []*utils.PriorityQueueItem
			for _, nx := range ops[oi+1:] {
				if nx.Op != "push" || nx.H != o.H || !(nx.Prio >= 0) {
					break
				}
				init = append(init, utils.NewPriorityQueueItem(nx.Prio, nx.Val))
			}
			if len(init) >= 2 {
				if o.Max {
					qs[o.H] = utils.NewMaxPriorityQueue(init...)
				} else {
					qs[o.H] = utils.NewMinPriorityQueue(init...)
				}
				skip = len(init)
				obs = append(obs, pqObs{Kind: "none"})
				continue
			}
		}
		var ob pqObs
		panicked, _ := recoverPanic(func() {
			switch o.Op {
			case "new":
				if o.Max {
					qs[o.H] = utils.NewMaxPriorityQueue()
				} else {
					qs[o.H] = utils.NewMinPriorityQueue()
				}
				ob = pqObs{Kind: "none"}
			case "push":
				qs[o.H].Push(utils.NewPriorityQueueItem(o.Prio, o.Val))
				ob = pqObs{Kind: "none"}
			case "pop":
				it := qs[o.H].Pop()
				ob = pqObs{Kind: "items", Items: [][2]int64{itemObs(it)}}
			case "peek":
				it := qs[o.H].Peek()
				ob = pqObs{Kind: "items", Items: [][2]int64{itemObs(it)}}
			case "reverse":
				qs[o.H2] = qs[o.H].Reverse()
				ob = pqObs{Kind: "none"}
			case "slice":
				sl := qs[o.H].ToSlice()
				ob = pqObs{Kind: "items", Items: [][2]int64{}}
				for _, it := range sl {
					ob.Items = append(ob.Items, itemObs(it))
				}
			case "len":
				ob = pqObs{Kind: "len", Len: qs[o.H].Len()}
			}
		})
		if panicked {
			ob = pqObs{Kind: "crash"}
		}
		obs = append(obs, ob)
	}
	return obs
}

var pqPrioPool = []float32{0, 0.5, 1, 1, 2, 2, 3, 5, 7, 9, 1e-30, 3.4e38, 1.5, 2.25}

func genPQScript(r *rng, maxOps int) []pqOp {
	n := 3 + r.intn(maxOps)
	ops := []pqOp{{Op: "new", H: 0, Max: r.chance(1, 2)}}
	handles := 1
	sizes := map[int]int{0: 0}
	val := 0
	for len(ops) < n {
		h := r.intn(handles)
		c := r.intn(100)
		switch {
		case c < 45 || (sizes[h] == 0 && c < 80):
			var p float32
			switch r.intn(10) {
			case 0:
				p = math.Float32frombits(uint32(r.next()) & 0x7f7fffff) // any non-negative finite
			case 1:
				if r.chance(1, 3) {
					p = -1 - float32(r.intn(3)) // negative: Push panics
				} else {
					p = float32(r.intn(4))
				}
			default:
				p = pqPrioPool[r.intn(len(pqPrioPool))]
			}
			val++
			ops = append(ops, pqOp{Op: "push", H: h, Prio: p, Val: val})
			if p >= 0 {
				sizes[h]++
			}
		case c < 65:
			ops = append(ops, pqOp{Op: "pop", H: h})
			if sizes[h] > 0 {
				sizes[h]--
			}
		case c < 72:
			ops = append(ops, pqOp{Op: "peek", H: h})
		case c < 82 && handles < 5:
			ops = append(ops, pqOp{Op: "reverse", H: h, H2: handles})
			sizes[handles] = sizes[h]
			handles++
		case c < 92:
			ops = append(ops, pqOp{Op: "slice", H: h})
		default:
			ops = append(ops, pqOp{Op: "len", H: h})
		}
	}
	// always end by dumping every handle, so that cross-handle interference is visible
	for h := 0; h < handles; h++ {
		ops = append(ops, pqOp{Op: "slice", H: h})
	}
	// and drain one of them completely
	h := r.intn(handles)
	for i := 0; i <= sizes[h]; i++ {
		ops = append(ops, pqOp{Op: "pop", H: h})
	}
	return ops
}

// fixed regression scripts (run first): the aliasing witness of PQ/Refuted.v and friends
func pqCorpus() [][]pqOp {
	w := []pqOp{{Op: "new", H: 0, Max: true}}
	for i, p := range []float32{5, 1, 4, 2, 3, 9, 7} {
		w = append(w, pqOp{Op: "push", H: 0, Prio: p, Val: i + 1})
	}
	w = append(w, pqOp{Op: "reverse", H: 0, H2: 1}, pqOp{Op: "slice", H: 0})
	for i := 0; i < 3; i++ {
		w = append(w, pqOp{Op: "pop", H: 0})
	}
	w = append(w, pqOp{Op: "push", H: 1, Prio: 0, Val: 20}, pqOp{Op: "slice", H: 0}, pqOp{Op: "slice", H: 1})
	for i := 0; i < 5; i++ {
		w = append(w, pqOp{Op: "pop", H: 1})
	}
	w2 := []pqOp{{Op: "new", H: 0}, {Op: "pop", H: 0}, {Op: "peek", H: 0}, {Op: "push", H: 0, Prio: -1, Val: 1}, {Op: "len", H: 0},
		{Op: "reverse", H: 0, H2: 1}, {Op: "push", H: 1, Prio: 2, Val: 2}, {Op: "slice", H: 0}, {Op: "slice", H: 1}}
	// (index 1 and 3 of the corpus run with the constructor variant) a min queue whose initial items are not in heap order
	w3 := []pqOp{{Op: "new", H: 0}, {Op: "push", H: 0, Prio: 3, Val: 1}, {Op: "push", H: 0, Prio: 1, Val: 2}, {Op: "push", H: 0, Prio: 2, Val: 3}, {Op: "push", H: 0, Prio: 1, Val: 4},
		{Op: "peek", H: 0}, {Op: "slice", H: 0}, {Op: "reverse", H: 0, H2: 1}, {Op: "pop", H: 0}, {Op: "pop", H: 0}, {Op: "pop", H: 0}, {Op: "pop", H: 0}, {Op: "pop", H: 1}, {Op: "pop", H: 1}}
	return [][]pqOp{w, w3, w2, w3}
}

func coqPQOp(o pqOp) string {
	switch o.Op {
	case "new":
		k := "MinQ"
		if o.Max {
			k = "MaxQ"
		}
		return fmt.Sprintf("PNew %d %s", o.H, k)
	case "push":
		return fmt.Sprintf("PPush %d (I (%d) %d)", o.H, prioKey(o.Prio), o.Val)
	case "pop":
		return fmt.Sprintf("PPop %d", o.H)
	case "peek":
		return fmt.Sprintf("PPeek %d", o.H)
	case "reverse":
		return fmt.Sprintf("PReverse %d %d", o.H, o.H2)
	case "slice":
		return fmt.Sprintf("PSlice %d", o.H)
	default:
		return fmt.Sprintf("PLen %d", o.H)
	}
}

func coqPQObs(o pqObs) string {
	switch o.Kind {
	case "none":
		return "ONone"
	case "crash":
		return "OCrash"
	case "len":
		return fmt.Sprintf("OLen %d", o.Len)
	default:
		it := make([]string, len(o.Items))
		for i, x := range o.Items {
			it[i] = fmt.Sprintf("I (%d) %d", x[0], x[1])
		}
		return "OItems [" + strings.Join(it, "; ") + "]"
	}
}

func runC19(a *args) error {
	r := newRng(a.seed)
	st := newStats("scripts of new/push/pop/peek/reverse/slice/len over up to 5 queue handles, priorities from a pool with ties plus random finite floats and negatives; every script ends by dumping all handles and draining one; every other script builds its queues with the leading pushes passed to the constructor as initial items; non-trivial = contains a reverse and a later pop on a queue holding >= 2 items; distinct by hash of the op list")
	var cases []pqCase
	var scripts [][]pqOp
	if a.replay != "" {
		var c pqCase
		if err := readReplayCase(a.replay, &c); err != nil {
			return err
		}
		scripts = [][]pqOp{c.Ops}
	} else {
		scripts = pqCorpus()
		maxOps := 40
		if a.tier == "thorough" {
			maxOps = 120
		}
		for len(scripts) < a.n {
			scripts = append(scripts, genPQScript(r.fork(), maxOps))
		}
	}
	seen := map[string]bool{}
	for si, ops := range scripts {
		// every other script hands the pushes that follow a "new" to the constructor as initial items
		ctor := si%2 == 1
		obs := runPQScript(ops, ctor)
		if ctor {
			st.count("initial-items-via-constructor")
		}
		cases = append(cases, pqCase{ops, obs})
		st.Evaluations++
		rev, nontriv := false, false
		sz := map[int]int{}
		for i, o := range ops {
			st.count("op:" + o.Op)
			if obs[i].Kind == "crash" {
				st.count("crash:" + o.Op)
			}
			switch o.Op {
			case "push":
				if o.Prio >= 0 {
					sz[o.H]++
				}
			case "reverse":
				rev = true
				sz[o.H2] = sz[o.H]
			case "pop":
				if rev && sz[o.H] >= 2 {
					nontriv = true
				}
				if sz[o.H] > 0 {
					sz[o.H]--
				}
			}
		}
		st.count(fmt.Sprintf("len:%d0s", len(ops)/10))
		h := hashOf(ops)
		if nontriv && !seen[h] {
			seen[h] = true
			st.DistinctNontrivial++
		}
	}
	for i := 0; i < len(cases) && i < 2; i++ {
		st.Samples = append(st.Samples, cases[i])
	}
	// Coq case file
	var items []string
	for _, c := range cases {
		ops := make([]string, len(c.Ops))
		for i, o := range c.Ops {
			ops[i] = coqPQOp(o)
		}
		obs := make([]string, len(c.Obs))
		for i, o := range c.Obs {
			obs[i] = coqPQObs(o)
		}
		items = append(items, fmt.Sprintf("{| c_ops := [%s];\n      c_obs := [%s] |}", strings.Join(ops, "; "), strings.Join(obs, "; ")))
	}
	prelude := "From Verif Require Import Base.Prelude PQ.Model PQ.Check Generated.Facts.\nOpen Scope Z_scope.\n" +
		"Definition copies := match reverse_copies with Known b => b | Unrecognised _ => true end.\n"
	defs := "Definition bad_model := Eval vm_compute in bad_idx (case_model_ok copies) cases 0.\n" +
		"Definition bad_oracle := Eval vm_compute in bad_idx case_oracle_ok cases 0.\n" +
		"Print bad_model.\nPrint bad_oracle.\n"
	if err := writeShards(a.out, prelude, "pq_case", items, defs, 250); err != nil {
		return err
	}
	if err := writeJSON(a.out+"/cases.json", cases); err != nil {
		return err
	}
	return writeJSON(a.out+"/stats.json", st)
}
