package main

// C20 — cluster membership and the address book.  Real anndb.Server processes-in-a-process on loopback (real join
// handshake over gRPC, on-disk stores, real stop/start), raft traffic routed by a shim that resolves the destination
// through the SENDER's address book (a message to a node whose address the sender does not know, or knows wrongly,
// is undeliverable - exactly what Dial would do) and that can cut nodes off.

import (
	"context"
	"encoding/json"
	"fmt"
	"os"
	"path/filepath"
	"sort"
	"strings"
	"sync"
	"time"

	anndb "github.com/marekgalovic/anndb"
	pb "github.com/marekgalovic/anndb/protobuf"
	"google.golang.org/grpc"
)

func init() { runners["C20"] = runC20 }

type c20Op struct {
	Kind string `json:"kind"` // boot join remove snapshot restart cut heal settle
	Node int    `json:"node,omitempty"`
	Via  int    `json:"via,omitempty"`
	// join+remove: the node removed at the same time and the member the removal goes through
	Other int `json:"other,omitempty"`
	Via2  int `json:"via2,omitempty"`
	// join: the node comes back as a new machine - empty store, another address - under its old id
	Fresh bool `json:"fresh,omitempty"`
}
type c20Case struct {
	Script  []c20Op                      `json:"script"`
	Note    string                       `json:"note,omitempty"`
	Addrs   map[string]string            `json:"addrs"`   // node id -> announced address
	Members []int                        `json:"members"` // acknowledged members at the end
	Books   map[string]map[string]string `json:"books"`   // live member -> its address book
	Events  []string                     `json:"events"`
	// membership log as the harness proposed it (for the model): entries "add:<id>" / "remove:<id>", and the
	// positions (in this list) at which a node's zero group was snapshotted before that node restarted
	Log      []string       `json:"log"`
	Restarts []c20RestartAt `json:"restarts"`
}
type c20RestartAt struct {
	Node     int  `json:"node"`
	Cut      int  `json:"cut"` // log prefix covered by the node's stored snapshot (0 = none)
	Rejoined bool `json:"rejoined"`
}

type c20Net struct {
	mu     sync.Mutex
	byAddr map[string]*anndb.Server
	byId   map[uint64]*anndb.Server
	cut    map[uint64]bool
	delay  time.Duration // latency of every raft message (0 = delivered at once)
}

type c20Shim struct {
	net      *c20Net
	from, to uint64
}

func (s *c20Shim) Receive(ctx context.Context, in *pb.RaftMessage, opts ...grpc.CallOption) (*pb.EmptyMessage, error) {
	s.net.mu.Lock()
	src := s.net.byId[s.from]
	cut := s.net.cut[s.from] || s.net.cut[s.to]
	delay := s.net.delay
	s.net.mu.Unlock()
	if src == nil || cut {
		return nil, fmt.Errorf("unreachable")
	}
	if delay > 0 {
		time.Sleep(delay)
	}
	addr, ok := src.VerifConn().Nodes()[s.to]
	if !ok {
		return nil, fmt.Errorf("node address not found")
	}
	s.net.mu.Lock()
	dst := s.net.byAddr[addr]
	s.net.mu.Unlock()
	if dst == nil {
		return nil, fmt.Errorf("connection refused: %q", addr)
	}
	type res struct {
		m   *pb.EmptyMessage
		err error
	}
	ch := make(chan res, 1)
	go func() {
		m, err := dst.VerifZeroGroup().VerifTransport().VerifReceive(ctx, in)
		ch <- res{m, err}
	}()
	select {
	case x := <-ch:
		return x.m, x.err
	case <-ctx.Done():
		return nil, ctx.Err()
	}
}

type c20Node struct {
	id   int
	dir  string
	port string
	join []string
	srv  *anndb.Server
	snap int // log prefix covered by the stored zero-group snapshot
}

func (n *c20Node) addr() string { return ":" + n.port }

type c20World struct {
	net     *c20Net
	nodes   map[int]*c20Node
	dir     string
	log     []string
	members map[int]bool
	nudge   int
}

func (w *c20World) start(n *c20Node, joining bool) error {
	cfg := anndb.NewConfig()
	cfg.DataDir, cfg.Port, cfg.RaftNodeId, cfg.JoinNodes = n.dir, n.port, uint64(n.id), n.join
	srv := anndb.NewServer(cfg)
	if err := srv.Run(); err != nil {
		return err
	}
	n.srv = srv
	w.net.mu.Lock()
	w.net.byAddr[n.addr()] = srv
	w.net.byId[uint64(n.id)] = srv
	w.net.mu.Unlock()
	tr := srv.VerifZeroGroup().VerifTransport()
	for to := 1; to <= 6; to++ {
		if to != n.id {
			tr.VerifSetPeerClient(uint64(to), &c20Shim{net: w.net, from: uint64(n.id), to: uint64(to)})
		}
	}
	if joining {
		return srv.JoinCluster()
	}
	return nil
}

func (w *c20World) stop(n *c20Node) {
	w.net.mu.Lock()
	delete(w.net.byAddr, n.addr())
	delete(w.net.byId, uint64(n.id))
	w.net.mu.Unlock()
	if n.srv != nil {
		n.srv.Stop()
		n.srv = nil
	}
}

func (w *c20World) live() []*c20Node {
	var out []*c20Node
	for _, n := range w.nodes {
		if n.srv != nil {
			out = append(out, n)
		}
	}
	sort.Slice(out, func(i, j int) bool { return out[i].id < out[j].id })
	return out
}

func (w *c20World) leader() *c20Node {
	for _, n := range w.live() {
		if n.srv.VerifZeroGroup().VerifStatus().Lead == uint64(n.id) && w.members[n.id] {
			return n
		}
	}
	return nil
}

// settle waits until a leader exists and every live member has applied everything the leader committed, three polls in a row.
func (w *c20World) settle(max time.Duration) bool {
	deadline := time.Now().Add(max)
	stable := 0
	for time.Now().Before(deadline) {
		time.Sleep(40 * time.Millisecond)
		l := w.leader()
		if l == nil {
			stable = 0
			// help a bootstrap / surviving node along
			// one connected member at a time, a different one each round (a member whose log is behind cannot win and
			// would only keep raising the term)
			var up []*c20Node
			for _, n := range w.live() {
				if w.members[n.id] {
					w.net.mu.Lock()
					c := w.net.cut[uint64(n.id)]
					w.net.mu.Unlock()
					if !c {
						up = append(up, n)
					}
				}
			}
			if len(up) > 0 {
				up[w.nudge%len(up)].srv.VerifZeroGroup().VerifCampaign()
				w.nudge++
			}
			time.Sleep(150 * time.Millisecond)
			continue
		}
		ls := l.srv.VerifZeroGroup().VerifStatus()
		ok := ls.Applied >= ls.Commit
		for _, n := range w.live() {
			if !w.members[n.id] {
				continue
			}
			w.net.mu.Lock()
			c := w.net.cut[uint64(n.id)]
			w.net.mu.Unlock()
			if c {
				continue
			}
			s := n.srv.VerifZeroGroup().VerifStatus()
			if s.Applied < ls.Commit || s.Lead != uint64(l.id) {
				ok = false
			}
		}
		if ok {
			stable++
			if stable >= 4 {
				return true
			}
		} else {
			stable = 0
		}
	}
	return false
}

func runC20Scenario(c *c20Case, st *stats, idx int, scratch string) {
	fail := func(what, key string) {
		st.ImplFailures = append(st.ImplFailures, implFailure{Case: idx, What: what, Key: key, Input: *c})
	}
	w := &c20World{net: &c20Net{byAddr: map[string]*anndb.Server{}, byId: map[uint64]*anndb.Server{}, cut: map[uint64]bool{}},
		nodes: map[int]*c20Node{}, dir: filepath.Join(scratch, fmt.Sprintf("c20_%d", idx)), members: map[int]bool{}}
	os.RemoveAll(w.dir)
	defer os.RemoveAll(w.dir)
	defer func() {
		for _, n := range w.nodes {
			if n.srv != nil {
				w.stop(n)
			}
		}
	}()
	c.Addrs, c.Books = map[string]string{}, map[string]map[string]string{}
	ev := func(f string, a ...interface{}) { c.Events = append(c.Events, fmt.Sprintf(f, a...)) }
	node := func(i int) *c20Node {
		if n, ok := w.nodes[i]; ok {
			return n
		}
		n := &c20Node{id: i, dir: filepath.Join(w.dir, fmt.Sprint(i)), port: freePort()}
		os.MkdirAll(n.dir, 0755)
		w.nodes[i] = n
		c.Addrs[fmt.Sprint(i)] = n.addr()
		return n
	}
	for _, op := range c.Script {
		switch op.Kind {
		case "boot":
			n := node(op.Node)
			if err := w.start(n, false); err != nil {
				fail("boot: "+err.Error(), "server-start")
				return
			}
			w.members[n.id] = true
			w.log = append(w.log, fmt.Sprintf("add:%d", n.id))
			if !w.settle(15 * time.Second) {
				fail("the bootstrap node elected no leader", "no-leader")
				return
			}
		case "join":
			n, via := node(op.Node), node(op.Via)
			if op.Fresh && n.srv == nil {
				os.RemoveAll(n.dir)
				os.MkdirAll(n.dir, 0755)
				n.port = freePort()
				n.snap = 0
				c.Addrs[fmt.Sprint(n.id)] = n.addr()
			}
			n.join = []string{via.addr()}
			var err error
			if n.srv != nil {
				// already running (an earlier handshake was refused): repeat the handshake
				if w.members[n.id] {
					continue
				}
				err = n.srv.JoinCluster()
			} else {
				err = w.start(n, true)
			}
			ev("join %d via %d: %v", n.id, via.id, err)
			if err == nil {
				// JoinCluster returned nil: the join is acknowledged
				w.members[n.id] = true
				w.log = append(w.log, fmt.Sprintf("add:%d", n.id))
			}
		case "remove":
			n, via := node(op.Node), w.leader()
			if via == nil || n.srv == nil {
				continue
			}
			err := via.srv.VerifNodesManager().RemoveNode(uint64(n.id))
			ev("remove %d via %d: %v", n.id, via.id, err)
			if err == nil {
				delete(w.members, n.id)
				w.log = append(w.log, fmt.Sprintf("remove:%d", n.id))
				w.settle(10 * time.Second)
				w.stop(n)
			}
		case "snapshot":
			n := node(op.Node)
			if n.srv == nil {
				continue
			}
			w.settle(10 * time.Second)
			s := n.srv.VerifZeroGroup().VerifStatus()
			err := n.srv.VerifZeroGroup().VerifSnapshotNow(s.Applied, 0)
			n.snap = len(w.log)
			ev("snapshot on %d at applied %d: %v", n.id, s.Applied, err)
		case "restart":
			n := node(op.Node)
			if n.srv == nil {
				continue
			}
			w.settle(10 * time.Second)
			w.stop(n)
			time.Sleep(50 * time.Millisecond)
			err := w.start(n, len(n.join) > 0)
			ev("restart %d (snapshot covers %d log entries, rejoin=%v): %v", n.id, n.snap, len(n.join) > 0, err)
			c.Restarts = append(c.Restarts, c20RestartAt{Node: n.id, Cut: n.snap, Rejoined: len(n.join) > 0})
			if err != nil && n.srv == nil {
				fail("restart: "+err.Error(), "server-restart")
				return
			}
		case "stop":
			n := node(op.Node)
			if n.srv != nil {
				w.settle(10 * time.Second)
				w.stop(n)
				ev("stop %d", n.id)
			}
		case "start":
			n := node(op.Node)
			if n.srv == nil {
				err := w.start(n, op.Via != 0 && len(n.join) > 0)
				ev("start %d (rejoin=%v): %v", n.id, op.Via != 0 && len(n.join) > 0, err)
				c.Restarts = append(c.Restarts, c20RestartAt{Node: n.id, Cut: n.snap, Rejoined: op.Via != 0 && len(n.join) > 0})
				if err != nil && n.srv == nil {
					fail("start: "+err.Error(), "server-restart")
					return
				}
			}
		case "join+remove":
			// two membership changes at the same moment through two different members (neither the leader), with some
			// latency on every raft message: node op.Node joins through op.Via while node op.Other is removed through
			// op.Via2.  Raft lets one change be pending at a time; the other proposal is dropped and has to be repeated -
			// an acknowledgement means the change was applied
			n, via, victim, via2 := node(op.Node), node(op.Via), node(op.Other), node(op.Via2)
			if via.srv == nil || via2.srv == nil || victim.srv == nil {
				continue
			}
			w.settle(10 * time.Second)
			w.net.mu.Lock()
			w.net.delay = 20 * time.Millisecond
			w.net.mu.Unlock()
			n.join = []string{via.addr()}
			var jerr, rerr error
			var wg sync.WaitGroup
			wg.Add(2)
			go func() { defer wg.Done(); jerr = w.start(n, true) }()
			go func() { defer wg.Done(); rerr = via2.srv.VerifNodesManager().RemoveNode(uint64(victim.id)) }()
			wg.Wait()
			w.net.mu.Lock()
			w.net.delay = 0
			w.net.mu.Unlock()
			ev("join %d via %d at the same time as remove %d via %d: join %v, remove %v", n.id, via.id, victim.id, via2.id, jerr, rerr)
			if jerr == nil {
				w.members[n.id] = true
				w.log = append(w.log, fmt.Sprintf("add:%d", n.id))
			}
			if rerr == nil {
				delete(w.members, victim.id)
				w.log = append(w.log, fmt.Sprintf("remove:%d", victim.id))
				w.settle(10 * time.Second)
				w.stop(victim)
			}
		case "restart-heal":
			// the member stops and starts again (repeating the handshake with its seed) while the network is still cut;
			// half a second into the handshake the network heals
			n := node(op.Node)
			if n.srv == nil {
				continue
			}
			w.stop(n)
			time.Sleep(50 * time.Millisecond)
			done := make(chan error, 1)
			go func() { done <- w.start(n, len(n.join) > 0) }()
			time.Sleep(500 * time.Millisecond)
			w.net.mu.Lock()
			w.net.cut = map[uint64]bool{}
			w.net.mu.Unlock()
			var err error
			select {
			case err = <-done:
			case <-time.After(25 * time.Second):
				err = fmt.Errorf("the restart did not return within 25 s")
			}
			ev("restart %d during a cut that heals 500 ms into its handshake: %v", n.id, err)
			c.Restarts = append(c.Restarts, c20RestartAt{Node: n.id, Cut: n.snap, Rejoined: len(n.join) > 0})
			if err != nil && n.srv == nil {
				fail("restart: "+err.Error(), "server-restart")
				return
			}
		case "cut":
			w.net.mu.Lock()
			w.net.cut[uint64(op.Node)] = true
			w.net.mu.Unlock()
		case "heal":
			w.net.mu.Lock()
			w.net.cut = map[uint64]bool{}
			w.net.mu.Unlock()
		case "settle":
			w.settle(15 * time.Second)
		}
	}
	settled := w.settle(20 * time.Second)
	// a second look a little later: "eventually"
	time.Sleep(300 * time.Millisecond)
	for _, n := range w.live() {
		if !w.members[n.id] {
			continue
		}
		book := map[string]string{}
		for id, a := range n.srv.VerifConn().Nodes() {
			book[fmt.Sprint(id)] = a
		}
		c.Books[fmt.Sprint(n.id)] = book
	}
	for i := range w.members {
		c.Members = append(c.Members, i)
	}
	sort.Ints(c.Members)
	c.Log = w.log
	// Go-side oracle (the Coq side repeats it on the recorded observation)
	want := map[string]string{}
	for _, i := range c.Members {
		want[fmt.Sprint(i)] = c.Addrs[fmt.Sprint(i)]
	}
	for m, book := range c.Books {
		if fmt.Sprint(book) != fmt.Sprint(want) {
			key := "membership-view-differs"
			var lost, wrong, extra []string
			for id, a := range want {
				if b, ok := book[id]; !ok {
					lost = append(lost, id)
				} else if b != a {
					wrong = append(wrong, fmt.Sprintf("%s->%q", id, b))
				}
			}
			for id := range book {
				if _, ok := want[id]; !ok {
					extra = append(extra, id)
				}
			}
			sort.Strings(lost)
			sort.Strings(wrong)
			sort.Strings(extra)
			restarted := false
			for _, r := range c.Restarts {
				if fmt.Sprint(r.Node) == m {
					restarted = true
				}
			}
			switch {
			case len(wrong) > 0 && len(lost) == 0 && len(extra) == 0:
				key = "wrong-address"
			case len(lost) > 0 && restarted && len(extra) == 0:
				key = "addresses-lost-after-restart"
			case len(lost) > 0 && !restarted && len(extra) == 0:
				key = "acknowledged-join-missing"
			}
			fail(fmt.Sprintf("member %s lists %v; acknowledged members with announced addresses are %v (missing %v, wrong %v, extra %v; settled=%v; events: %s)",
				m, book, want, lost, wrong, extra, settled, strings.Join(c.Events, "; ")), key)
		}
	}
}

func c20Scripts(r *rng, n int, thorough bool) []c20Case {
	var cs []c20Case
	add := func(note string, ops ...c20Op) { cs = append(cs, c20Case{Script: ops, Note: note}) }
	add("three nodes join one after the other",
		c20Op{Kind: "boot", Node: 1}, c20Op{Kind: "join", Node: 2, Via: 1}, c20Op{Kind: "join", Node: 3, Via: 2})
	add("the bootstrap node restarts after its membership log was compacted",
		c20Op{Kind: "boot", Node: 1}, c20Op{Kind: "join", Node: 2, Via: 1}, c20Op{Kind: "join", Node: 3, Via: 1},
		c20Op{Kind: "snapshot", Node: 1}, c20Op{Kind: "restart", Node: 1})
	add("a joiner restarts (no compaction): it replays the membership log from its first entry",
		c20Op{Kind: "boot", Node: 1}, c20Op{Kind: "join", Node: 2, Via: 1}, c20Op{Kind: "join", Node: 3, Via: 2},
		c20Op{Kind: "restart", Node: 3})
	add("removal, compaction on a joiner, restart, a later join",
		c20Op{Kind: "boot", Node: 1}, c20Op{Kind: "join", Node: 2, Via: 1}, c20Op{Kind: "join", Node: 3, Via: 1},
		c20Op{Kind: "remove", Node: 3}, c20Op{Kind: "snapshot", Node: 2}, c20Op{Kind: "restart", Node: 2},
		c20Op{Kind: "join", Node: 4, Via: 2})
	add("the membership log is compacted before a join: the joiner is brought up to date by the leader's snapshot",
		c20Op{Kind: "boot", Node: 1}, c20Op{Kind: "join", Node: 2, Via: 1}, c20Op{Kind: "snapshot", Node: 1}, c20Op{Kind: "join", Node: 3, Via: 1},
		c20Op{Kind: "settle"}, c20Op{Kind: "restart", Node: 3})
	add("a single node compacts, then the first joiner arrives and restarts",
		c20Op{Kind: "boot", Node: 1}, c20Op{Kind: "snapshot", Node: 1}, c20Op{Kind: "join", Node: 2, Via: 1}, c20Op{Kind: "settle"}, c20Op{Kind: "restart", Node: 2})
	add("a member is down while one node joins and another is removed and the log is compacted; it comes back without repeating the handshake and is brought up to date by a snapshot",
		c20Op{Kind: "boot", Node: 1}, c20Op{Kind: "join", Node: 2, Via: 1}, c20Op{Kind: "join", Node: 3, Via: 1}, c20Op{Kind: "settle"},
		c20Op{Kind: "stop", Node: 1}, c20Op{Kind: "settle"}, c20Op{Kind: "join", Node: 4, Via: 2}, c20Op{Kind: "remove", Node: 3},
		c20Op{Kind: "snapshot", Node: 2}, c20Op{Kind: "snapshot", Node: 4}, c20Op{Kind: "start", Node: 1}, c20Op{Kind: "settle"})
	add("join through a follower whose leader has just been cut off",
		c20Op{Kind: "boot", Node: 1}, c20Op{Kind: "join", Node: 2, Via: 1}, c20Op{Kind: "join", Node: 3, Via: 1}, c20Op{Kind: "settle"},
		c20Op{Kind: "cut", Node: 1}, c20Op{Kind: "join", Node: 4, Via: 2}, c20Op{Kind: "heal"})
	add("a member compacts its membership log, then a node is removed, then that member restarts: it loads the snapshot (which still lists the node) and replays the removal",
		c20Op{Kind: "boot", Node: 1}, c20Op{Kind: "join", Node: 2, Via: 1}, c20Op{Kind: "join", Node: 3, Via: 1}, c20Op{Kind: "settle"},
		c20Op{Kind: "snapshot", Node: 2}, c20Op{Kind: "remove", Node: 3}, c20Op{Kind: "settle"}, c20Op{Kind: "restart", Node: 2}, c20Op{Kind: "settle"})
	add("a removed node joins again through a member that is cut off and has not yet applied the removal; the network heals and the handshake is repeated",
		c20Op{Kind: "boot", Node: 1}, c20Op{Kind: "join", Node: 2, Via: 1}, c20Op{Kind: "join", Node: 3, Via: 1}, c20Op{Kind: "settle"},
		c20Op{Kind: "cut", Node: 2}, c20Op{Kind: "remove", Node: 3}, c20Op{Kind: "join", Node: 3, Via: 2}, c20Op{Kind: "heal"}, c20Op{Kind: "settle"},
		c20Op{Kind: "join", Node: 3, Via: 2}, c20Op{Kind: "settle"})
	add("a node is removed while a member is cut off; another member restarts with the cut-off member as its seed; the cut heals during the handshake: the answer must not bring the removed node back",
		c20Op{Kind: "boot", Node: 1}, c20Op{Kind: "join", Node: 2, Via: 1}, c20Op{Kind: "join", Node: 3, Via: 2}, c20Op{Kind: "join", Node: 4, Via: 1}, c20Op{Kind: "settle"},
		c20Op{Kind: "cut", Node: 2}, c20Op{Kind: "remove", Node: 4}, c20Op{Kind: "restart-heal", Node: 3}, c20Op{Kind: "settle"})
	add("a removed node's id is taken by a new machine (empty store, another address) that joins through a follower, then restarts",
		c20Op{Kind: "boot", Node: 1}, c20Op{Kind: "join", Node: 2, Via: 1}, c20Op{Kind: "join", Node: 3, Via: 1}, c20Op{Kind: "settle"},
		c20Op{Kind: "remove", Node: 3}, c20Op{Kind: "settle"}, c20Op{Kind: "join", Node: 3, Via: 2, Fresh: true}, c20Op{Kind: "settle"},
		c20Op{Kind: "restart", Node: 3}, c20Op{Kind: "settle"})
	add("a removed node's id is taken by a new machine that joins through a follower: its own view right after the join",
		c20Op{Kind: "boot", Node: 1}, c20Op{Kind: "join", Node: 2, Via: 1}, c20Op{Kind: "join", Node: 3, Via: 1}, c20Op{Kind: "settle"},
		c20Op{Kind: "remove", Node: 3}, c20Op{Kind: "settle"}, c20Op{Kind: "join", Node: 3, Via: 2, Fresh: true}, c20Op{Kind: "settle"})
	add("a removed node's id is taken by a new machine, which is then stopped and started from its own store without a seed",
		c20Op{Kind: "boot", Node: 1}, c20Op{Kind: "join", Node: 2, Via: 1}, c20Op{Kind: "join", Node: 3, Via: 1}, c20Op{Kind: "settle"},
		c20Op{Kind: "remove", Node: 3}, c20Op{Kind: "settle"}, c20Op{Kind: "join", Node: 3, Via: 2, Fresh: true}, c20Op{Kind: "settle"},
		c20Op{Kind: "stop", Node: 3}, c20Op{Kind: "start", Node: 3}, c20Op{Kind: "settle"})
	add("a join through one follower and a removal through another at the same moment: what is acknowledged is applied",
		c20Op{Kind: "boot", Node: 1}, c20Op{Kind: "join", Node: 2, Via: 1}, c20Op{Kind: "join", Node: 3, Via: 1}, c20Op{Kind: "join", Node: 4, Via: 1}, c20Op{Kind: "settle"},
		c20Op{Kind: "join+remove", Node: 5, Via: 2, Other: 4, Via2: 3}, c20Op{Kind: "settle"})
	for len(cs) < n {
		// random histories: 2..4 joins, optional removal, snapshot + restart of a random member, a late join
		var ops []c20Op
		ops = append(ops, c20Op{Kind: "boot", Node: 1})
		k := 2 + r.intn(2)
		for i := 2; i <= k+1; i++ {
			ops = append(ops, c20Op{Kind: "join", Node: i, Via: 1 + r.intn(i-1)})
		}
		alive := k + 1
		if r.intn(2) == 0 {
			ops = append(ops, c20Op{Kind: "remove", Node: alive})
			alive--
		}
		v := 1 + r.intn(alive)
		if r.intn(3) != 0 {
			ops = append(ops, c20Op{Kind: "snapshot", Node: v})
		}
		ops = append(ops, c20Op{Kind: "restart", Node: v})
		if r.intn(2) == 0 {
			ops = append(ops, c20Op{Kind: "join", Node: 6, Via: 1 + r.intn(alive)})
		}
		cs = append(cs, c20Case{Script: ops, Note: "generated"})
	}
	return cs[:n]
}

func coqC20Case(c c20Case) string {
	addr := func(a string) string { // ":port" -> port number; "" -> 0
		if len(a) > 1 && a[0] == ':' {
			return a[1:]
		}
		return "0"
	}
	var books []string
	var ms []string
	for m := range c.Books {
		ms = append(ms, m)
	}
	sort.Strings(ms)
	for _, m := range ms {
		var es []string
		var ids []string
		for id := range c.Books[m] {
			ids = append(ids, id)
		}
		sort.Slice(ids, func(i, j int) bool {
			return len(ids[i]) < len(ids[j]) || (len(ids[i]) == len(ids[j]) && ids[i] < ids[j])
		})
		for _, id := range ids {
			es = append(es, fmt.Sprintf("(%s, %s)", id, addr(c.Books[m][id])))
		}
		books = append(books, fmt.Sprintf("(%s, [%s])", m, strings.Join(es, "; ")))
	}
	var log []string
	for _, e := range c.Log {
		p := strings.Split(e, ":")
		if p[0] == "add" {
			log = append(log, fmt.Sprintf("MAdd %s %s", p[1], addr(c.Addrs[p[1]])))
		} else {
			log = append(log, fmt.Sprintf("MRemove %s", p[1]))
		}
	}
	var rs []string
	for _, r := range c.Restarts {
		rs = append(rs, fmt.Sprintf("(%d, %d%%nat, %s)", r.Node, r.Cut, b(r.Rejoined)))
	}
	return fmt.Sprintf("{| mc_log := [%s]; mc_restarts := [%s]; mc_books := [%s] |}", strings.Join(log, "; "), strings.Join(rs, "; "), strings.Join(books, ";\n      "))
}

const c20Prelude = "From Verif Require Import Base.Prelude Cluster.Membership Generated.Facts Properties.C20.\nOpen Scope N_scope.\n"
const c20Defs = `Definition bad_model := Eval vm_compute in bad_idx (mem_case_model_ok snapshot_has_addresses_now bootstrap_carries_address_now) cases 0.
Definition bad_oracle := Eval vm_compute in bad_idx mem_case_oracle_ok cases 0.
Print bad_model. Print bad_oracle.
`

func runC20(a *args) error {
	quietLogs()
	isoVmemKB = 30000000
	r := newRng(a.seed)
	st := newStats("real anndb.Server instances on loopback (real gRPC join handshake, on-disk stores, real Stop/start as cmd/anndb does incl. re-running JoinCluster), raft traffic routed through the sender's address book with cut switches; scripted histories (joins in sequence and through followers, restart of the bootstrap node and of joiners with and without a compacted membership log, removal, late joins, a join through a follower cut off from its leader) plus generated ones over 3..5 nodes; observation: cluster.Conn.Nodes() of every member after quiescence; non-trivial = >= 3 members and (a restart or a removal or a cut); distinct by hash of the script")
	var cases []c20Case
	if a.replay != "" {
		var c c20Case
		if err := readReplayCase(a.replay, &c); err != nil {
			return err
		}
		cases = append(cases, c20Case{Script: c.Script, Note: c.Note})
	} else {
		cases = c20Scripts(r, a.n, a.tier == "thorough")
	}
	seen := map[string]bool{}
	var items []string
	var kept []c20Case
	if a.replay != "" {
		c := &cases[0]
		runC20Scenario(c, st, 0, a.out)
		st.Samples = append(st.Samples, *c)
		st.Evaluations = 1
		kept, items = append(kept, *c), append(items, coqC20Case(*c))
	} else {
		// every scenario runs in a child process (servers that fail to stop cleanly must not disturb the next one), 4 at a time
		type out struct {
			cst     *stats
			crashed bool
			tail    string
		}
		res := make([]out, len(cases))
		sem := make(chan struct{}, 4)
		var wg sync.WaitGroup
		for i := range cases {
			wg.Add(1)
			sem <- struct{}{}
			go func(i int) {
				defer wg.Done()
				defer func() { <-sem }()
				cst, crashed, tail := runIsolated("C20", cases[i], a, i)
				res[i] = out{cst, crashed, tail}
			}(i)
		}
		wg.Wait()
		for i := range cases {
			o := res[i]
			if o.crashed {
				st.ImplFailures = append(st.ImplFailures, implFailure{Case: i, What: "a node process died during this membership history: " + o.tail, Key: "membership-process-crash", Input: cases[i]})
				continue
			}
			for _, f := range o.cst.ImplFailures {
				f.Case = i
				st.ImplFailures = append(st.ImplFailures, f)
			}
			if len(o.cst.Samples) > 0 {
				var oc c20Case
				bs, _ := json.Marshal(o.cst.Samples[0])
				if json.Unmarshal(bs, &oc) == nil {
					cases[i] = oc
				}
			}
			c := cases[i]
			if c.Books == nil {
				continue
			}
			kept, items = append(kept, c), append(items, coqC20Case(c))
			st.Evaluations++
			st.count(fmt.Sprintf("members:%d", len(c.Members)))
			st.count(fmt.Sprintf("restarts:%d", len(c.Restarts)))
			h := hashOf(c.Script)
			nt := len(c.Members) >= 3 && (len(c.Restarts) > 0 || strings.Contains(fmt.Sprint(c.Script), "remove") || strings.Contains(fmt.Sprint(c.Script), "cut"))
			if nt && !seen[h] {
				seen[h] = true
				st.DistinctNontrivial++
			}
		}
		if len(kept) > 0 {
			st.Samples = append(st.Samples, map[string]interface{}{"script": kept[0].Script, "books": kept[0].Books})
		}
	}
	if err := writeShards(a.out, c20Prelude, "mem_case", items, c20Defs, 40); err != nil {
		return err
	}
	if err := writeJSON(a.out+"/cases.json", kept); err != nil {
		return err
	}
	return writeJSON(a.out+"/stats.json", st)
}
