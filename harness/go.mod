module verifharness

go 1.21

require github.com/marekgalovic/anndb v0.0.0

require github.com/satori/go.uuid v1.2.0 // indirect

replace github.com/marekgalovic/anndb => /repo
