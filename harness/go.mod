module verifharness

go 1.21

require (
	github.com/dgraph-io/badger/v2 v2.0.3
	github.com/marekgalovic/anndb v0.0.0
	github.com/sirupsen/logrus v1.5.0
	google.golang.org/grpc v1.28.0
)

require (
	github.com/DataDog/zstd v1.4.1 // indirect
	github.com/cespare/xxhash v1.1.0 // indirect
	github.com/coreos/etcd v3.3.19+incompatible
	github.com/dgraph-io/ristretto v0.0.2-0.20200115201040-8f368f2f2ab3 // indirect
	github.com/dgryski/go-farm v0.0.0-20190423205320-6a90982ecee2 // indirect
	github.com/dustin/go-humanize v1.0.0 // indirect
	github.com/gogo/protobuf v1.3.1 // indirect
	github.com/golang/protobuf v1.3.5
	github.com/golang/snappy v0.0.1 // indirect
	github.com/klauspost/cpuid v1.2.3 // indirect
	github.com/pkg/errors v0.8.1 // indirect
	github.com/satori/go.uuid v1.2.0
	github.com/shirou/gopsutil v2.20.5+incompatible // indirect
	golang.org/x/net v0.0.0-20190620200207-3b0461eec859 // indirect
	golang.org/x/sys v0.0.0-20190626221950-04f50cda93cb // indirect
	golang.org/x/text v0.3.0 // indirect
	google.golang.org/genproto v0.0.0-20190819201941-24fa4b261c55 // indirect
)

replace github.com/marekgalovic/anndb => /repo
