// verifharness — correspondence (differential) harness: runs the real anndb code on generated cases and writes
// the observations as Coq case files which the models are evaluated against.  One sub-command per property.
package main

import (
	"flag"
	"fmt"
	"os"
)

type runner func(a *args) error

var runners = map[string]runner{}

type args struct {
	seed    uint64
	n       int
	out     string
	tier    string
	replay  string
	isolate bool // run every case in a child process (used after an in-process run crashed)
}

func main() {
	if len(os.Args) < 2 {
		fmt.Fprintln(os.Stderr, "usage: verifharness <Cxx> [-seed N] [-n N] [-out DIR] [-tier quick|thorough] [-replay FILE]")
		os.Exit(2)
	}
	id := os.Args[1]
	fs := flag.NewFlagSet(id, flag.ExitOnError)
	a := &args{}
	fs.Uint64Var(&a.seed, "seed", 1, "PRNG seed")
	fs.IntVar(&a.n, "n", 100, "number of cases")
	fs.StringVar(&a.out, "out", ".", "output directory")
	fs.StringVar(&a.tier, "tier", "quick", "tier")
	fs.StringVar(&a.replay, "replay", "", "replay file")
	fs.BoolVar(&a.isolate, "isolate", false, "one child process per case")
	fs.Parse(os.Args[2:])
	r, ok := runners[id]
	if !ok {
		fmt.Fprintln(os.Stderr, "unknown property", id)
		os.Exit(2)
	}
	if err := os.MkdirAll(a.out, 0755); err != nil {
		fmt.Fprintln(os.Stderr, err)
		os.Exit(2)
	}
	if err := r(a); err != nil {
		fmt.Fprintln(os.Stderr, "harness error:", err)
		os.Exit(3)
	}
}
