package main

import "math"

func mathFloat32bits(f float32) uint32     { return math.Float32bits(f) }
func mathFloat32frombits(b uint32) float32 { return math.Float32frombits(b) }
