package main

// In-process cluster simulation: several "nodes", each with its own cluster.Conn, in-memory Badger, RaftTransport
// and Dataset objects built by the real constructors; RPCs between nodes go through the real service objects
// (services.New*Server) over in-memory client shims instead of gRPC.

import (
	"context"
	"fmt"
	"io"
	stdlog "log"
	"os"
	"sync"
	"time"

	"github.com/marekgalovic/anndb/cluster"
	pb "github.com/marekgalovic/anndb/protobuf"
	"github.com/marekgalovic/anndb/services"
	"github.com/marekgalovic/anndb/storage"
	"github.com/marekgalovic/anndb/storage/raft"
	"github.com/marekgalovic/anndb/storage/wal"

	etcdRaft "github.com/coreos/etcd/raft"
	"github.com/coreos/etcd/raft/raftpb"
	badger "github.com/dgraph-io/badger/v2"
	"github.com/golang/protobuf/proto"
	uuid "github.com/satori/go.uuid"
	log "github.com/sirupsen/logrus"
	"google.golang.org/grpc"
	"google.golang.org/grpc/metadata"
)

func quietLogs() {
	if os.Getenv("VERIF_LOG") != "" {
		return
	}
	log.SetOutput(io.Discard)
	log.SetLevel(log.PanicLevel)
	etcdRaft.SetLogger(&etcdRaft.DefaultLogger{Logger: stdlog.New(io.Discard, "", 0)})
}

// sharedBadger: stand-alone partitions whose raft group is never loaded do not touch their store; thousands of cases
// share one instead of opening one each (address space)
var sharedDB *badger.DB
var sharedDBOnce sync.Once

func sharedBadger() *badger.DB {
	sharedDBOnce.Do(func() { sharedDB = memBadger() })
	return sharedDB
}

// simBadgerTable: table size of the in-memory stores (a single value - a partition snapshot - must fit into 15% of it)
var simBadgerTable int64 = 1 << 20

func memBadger() *badger.DB {
	// small tables: the harness opens many in-memory stores and never closes them (goroutines of abandoned
	// "crashed" incarnations and the groups' 10 s snapshot tickers may still touch a store)
	opt := badger.DefaultOptions("").WithInMemory(true).WithMaxTableSize(simBadgerTable).WithNumMemtables(2).WithNumCompactors(1).WithValueLogFileSize(simBadgerTable)
	opt.Logger = nil
	db, err := badger.Open(opt)
	if err != nil {
		panic(err)
	}
	return db
}

type simNode struct {
	id        uint64
	conn      *cluster.Conn
	db        *badger.DB
	transport *raft.RaftTransport
	datasets  map[uuid.UUID]*storage.Dataset
	dm        *storage.DatasetManager
	// fault switches
	mu          sync.Mutex
	unreachable bool
	gate        func(kind string) error      // called before serving an incoming RPC; may block or fail
	streamFault string                       // "" | "break" (a result stream fails after its first item) | "badid" (an item with a malformed id)
	raftFault   func(m *raftpb.Message) bool // incoming raft messages for which the sender gets an error (others pass)
}

type simCluster struct {
	nodes map[uint64]*simNode
	ids   []uint64
	// optional: wrap the log store of (node, partition index) before its raft group is loaded
	wrapWAL func(node uint64, part int, w wal.WAL) wal.WAL
	// optional: observe every raft message (after the reachability check)
	onRaftMsg func(from, to uint64, req *pb.RaftMessage)
}

func newSimCluster(ids []uint64) *simCluster {
	quietLogs()
	c := &simCluster{nodes: map[uint64]*simNode{}, ids: ids}
	for _, id := range ids {
		conn, _ := cluster.NewConn(id, fmt.Sprintf("sim-%d", id), "")
		n := &simNode{id: id, conn: conn, db: memBadger(), datasets: map[uuid.UUID]*storage.Dataset{}}
		n.transport = raft.NewTransport(id, fmt.Sprintf("sim-%d", id), conn)
		c.nodes[id] = n
	}
	for _, a := range c.nodes {
		for _, b := range c.nodes {
			if a.id != b.id {
				a.conn.AddNode(b.id, fmt.Sprintf("sim-%d", b.id))
				a.transport.VerifSetPeerClient(b.id, &memRaftClient{from: a, to: b, c: c})
			}
		}
	}
	return c
}

func (c *simCluster) close() {
	for _, n := range c.nodes {
		for _, d := range n.datasets {
			d.VerifClose()
		}
	}
	time.Sleep(2 * time.Millisecond)
}

// createDataset builds the dataset on every node from the same metadata, loads raft for the partitions placed on
// each node, wires the in-memory RPC clients and elects the first listed replica of every partition.
func (c *simCluster) createDataset(meta pb.Dataset) error {
	id := uuid.FromBytesOrNil(meta.GetId())
	for _, n := range c.nodes {
		m := cloneDataset(meta)
		d, err := storage.VerifNewDataset(m, n.db, n.transport, n.conn)
		if err != nil {
			return err
		}
		n.datasets[id] = d
		all := make([]*storage.Dataset, 0)
		for _, x := range n.datasets {
			all = append(all, x)
		}
		n.dm = storage.VerifNewDatasetManager(all...)
	}
	for _, a := range c.nodes {
		for _, b := range c.nodes {
			if a.id != b.id {
				a.datasets[id].VerifSetDataManagerClient(b.id, &memDataManagerClient{to: b})
			}
			// a node searches its own partitions through its Search service as well
			a.datasets[id].VerifSetSearchClient(b.id, &memSearchClient{to: b})
		}
	}
	for i, p := range meta.Partitions {
		for _, nid := range p.NodeIds {
			n, ok := c.nodes[nid]
			if !ok {
				continue
			}
			if c.wrapWAL != nil {
				node, part := nid, i
				n.datasets[id].VerifWrapWAL(i, func(w wal.WAL) wal.WAL { return c.wrapWAL(node, part, w) })
			}
			if err := n.datasets[id].VerifLoadRaft(i, p.NodeIds); err != nil {
				return err
			}
		}
	}
	for i, p := range meta.Partitions {
		if len(p.NodeIds) == 0 {
			continue
		}
		lead, ok := c.nodes[p.NodeIds[0]]
		if !ok {
			continue
		}
		g := lead.datasets[id].VerifRaft(i)
		deadline := time.Now().Add(5 * time.Second)
		for time.Now().Before(deadline) {
			g.VerifCampaign()
			time.Sleep(2 * time.Millisecond)
			if g.VerifStatus().Lead == lead.id {
				break
			}
		}
		if g.VerifStatus().Lead != lead.id {
			return fmt.Errorf("partition %d: no leader elected", i)
		}
		// wait until the leader's first (empty) entry of the term is applied: LeaderId() is then visible in the loop
		for time.Now().Before(deadline) && g.LeaderId() != lead.id {
			time.Sleep(time.Millisecond)
		}
	}
	return nil
}

func cloneDataset(m pb.Dataset) pb.Dataset {
	out := m
	out.Partitions = make([]*pb.Partition, len(m.Partitions))
	for i, p := range m.Partitions {
		q := *p
		q.NodeIds = append([]uint64(nil), p.NodeIds...)
		q.Id = append([]byte(nil), p.Id...)
		out.Partitions[i] = &q
	}
	return out
}

func newDatasetMeta(r *rng, dim uint32, space pb.Space, placement [][]uint64, repl uint32) pb.Dataset {
	id := uuidFrom(r)
	m := pb.Dataset{Id: id.Bytes(), Dimension: dim, Space: space, PartitionCount: uint32(len(placement)), ReplicationFactor: repl}
	for _, nodes := range placement {
		m.Partitions = append(m.Partitions, &pb.Partition{Id: uuidFrom(r).Bytes(), NodeIds: append([]uint64(nil), nodes...)})
	}
	return m
}

// a random version-4 UUID from the harness PRNG
func uuidFrom(r *rng) uuid.UUID {
	var u uuid.UUID
	a, b := r.next(), r.next()
	for i := 0; i < 8; i++ {
		u[i] = byte(a >> (8 * uint(i)))
		u[8+i] = byte(b >> (8 * uint(i)))
	}
	u[6] = (u[6] & 0x0f) | 0x40
	u[8] = (u[8] & 0x3f) | 0x80
	return u
}

func (n *simNode) check(kind string) error {
	n.mu.Lock()
	un, g := n.unreachable, n.gate
	n.mu.Unlock()
	if un {
		return fmt.Errorf("sim: node %d unreachable", n.id)
	}
	if g != nil {
		return g(kind)
	}
	return nil
}

func (n *simNode) setUnreachable(v bool)             { n.mu.Lock(); n.unreachable = v; n.mu.Unlock() }
func (n *simNode) setStreamFault(f string)           { n.mu.Lock(); n.streamFault = f; n.mu.Unlock() }
func (n *simNode) setGate(g func(kind string) error) { n.mu.Lock(); n.gate = g; n.mu.Unlock() }

// ---------------------------------------------------------------- raft transport shim
type memRaftClient struct {
	from, to *simNode
	c        *simCluster
}

func (c *memRaftClient) Receive(ctx context.Context, in *pb.RaftMessage, opts ...grpc.CallOption) (*pb.EmptyMessage, error) {
	if c.c != nil && c.c.onRaftMsg != nil {
		c.c.onRaftMsg(c.from.id, c.to.id, in) // the message has left the sender, whether or not it arrives
	}
	if err := c.from.check("raft-out"); err != nil {
		return nil, err
	}
	if err := c.to.check("raft"); err != nil {
		return nil, err
	}
	c.to.mu.Lock()
	rf := c.to.raftFault
	c.to.mu.Unlock()
	if rf != nil {
		var m raftpb.Message
		if proto.Unmarshal(in.GetMessage(), &m) == nil && rf(&m) {
			return nil, fmt.Errorf("sim: message %s to node %d lost", m.Type, c.to.id)
		}
	}
	// like a gRPC call, the client side returns when its context ends (Send gives every message 500 ms) even if the
	// handler is still blocked (a forwarded proposal waits in raft.Step until the receiver knows a leader)
	type res struct {
		m   *pb.EmptyMessage
		err error
	}
	ch := make(chan res, 1)
	go func() {
		m, err := c.to.transport.VerifReceive(ctx, in)
		ch <- res{m, err}
	}()
	select {
	case x := <-ch:
		return x.m, x.err
	case <-ctx.Done():
		return nil, ctx.Err()
	}
}

// ---------------------------------------------------------------- DataManager shim over the real service object
type memDataManagerClient struct{ to *simNode }

func (c *memDataManagerClient) srv() pb.DataManagerServer {
	return services.NewDataManagerServer(c.to.dm)
}

func (c *memDataManagerClient) Insert(ctx context.Context, in *pb.InsertRequest, opts ...grpc.CallOption) (*pb.EmptyMessage, error) {
	if err := c.to.check("Insert"); err != nil {
		return nil, err
	}
	return c.srv().Insert(ctx, in)
}
func (c *memDataManagerClient) Update(ctx context.Context, in *pb.UpdateRequest, opts ...grpc.CallOption) (*pb.EmptyMessage, error) {
	if err := c.to.check("Update"); err != nil {
		return nil, err
	}
	return c.srv().Update(ctx, in)
}
func (c *memDataManagerClient) Remove(ctx context.Context, in *pb.RemoveRequest, opts ...grpc.CallOption) (*pb.EmptyMessage, error) {
	if err := c.to.check("Remove"); err != nil {
		return nil, err
	}
	return c.srv().Remove(ctx, in)
}
func (c *memDataManagerClient) BatchInsert(ctx context.Context, in *pb.BatchRequest, opts ...grpc.CallOption) (*pb.BatchResponse, error) {
	if err := c.to.check("BatchInsert"); err != nil {
		return nil, err
	}
	return c.srv().BatchInsert(ctx, in)
}
func (c *memDataManagerClient) BatchUpdate(ctx context.Context, in *pb.BatchRequest, opts ...grpc.CallOption) (*pb.BatchResponse, error) {
	if err := c.to.check("BatchUpdate"); err != nil {
		return nil, err
	}
	return c.srv().BatchUpdate(ctx, in)
}
func (c *memDataManagerClient) BatchRemove(ctx context.Context, in *pb.BatchRequest, opts ...grpc.CallOption) (*pb.BatchResponse, error) {
	if err := c.to.check("BatchRemove"); err != nil {
		return nil, err
	}
	return c.srv().BatchRemove(ctx, in)
}
func (c *memDataManagerClient) PartitionBatchInsert(ctx context.Context, in *pb.PartitionBatchRequest, opts ...grpc.CallOption) (*pb.BatchResponse, error) {
	if err := c.to.check("PartitionBatchInsert"); err != nil {
		return nil, err
	}
	return c.srv().PartitionBatchInsert(ctx, in)
}
func (c *memDataManagerClient) PartitionBatchUpdate(ctx context.Context, in *pb.PartitionBatchRequest, opts ...grpc.CallOption) (*pb.BatchResponse, error) {
	if err := c.to.check("PartitionBatchUpdate"); err != nil {
		return nil, err
	}
	return c.srv().PartitionBatchUpdate(ctx, in)
}
func (c *memDataManagerClient) PartitionBatchRemove(ctx context.Context, in *pb.PartitionBatchRequest, opts ...grpc.CallOption) (*pb.BatchResponse, error) {
	if err := c.to.check("PartitionBatchRemove"); err != nil {
		return nil, err
	}
	return c.srv().PartitionBatchRemove(ctx, in)
}
func (c *memDataManagerClient) PartitionInfo(ctx context.Context, in *pb.PartitionInfoRequest, opts ...grpc.CallOption) (*pb.PartitionInfoResponse, error) {
	if err := c.to.check("PartitionInfo"); err != nil {
		return nil, err
	}
	return c.srv().PartitionInfo(ctx, in)
}

// ---------------------------------------------------------------- Search shim (server-streaming collected in memory)
type memSearchClient struct{ to *simNode }

type memStream struct {
	ctx   context.Context
	items []*pb.SearchResultItem
	pos   int
	fault string
}

func (s *memStream) Send(m *pb.SearchResultItem) error { s.items = append(s.items, m); return nil }
func (s *memStream) SetHeader(metadata.MD) error       { return nil }
func (s *memStream) SendHeader(metadata.MD) error      { return nil }
func (s *memStream) SetTrailer(metadata.MD)            {}
func (s *memStream) Context() context.Context          { return s.ctx }
func (s *memStream) SendMsg(m interface{}) error       { return nil }
func (s *memStream) RecvMsg(m interface{}) error       { return nil }
func (s *memStream) Header() (metadata.MD, error)      { return nil, nil }
func (s *memStream) Trailer() metadata.MD              { return nil }
func (s *memStream) CloseSend() error                  { return nil }
func (s *memStream) Recv() (*pb.SearchResultItem, error) {
	if s.fault == "break" && s.pos >= 1 {
		return nil, fmt.Errorf("rpc error: code = Unavailable desc = transport is closing")
	}
	if s.pos >= len(s.items) {
		if s.fault == "break" {
			return nil, fmt.Errorf("rpc error: code = Unavailable desc = transport is closing")
		}
		return nil, io.EOF
	}
	s.pos++
	if s.fault == "badid" && s.pos == 1 {
		it := *s.items[0]
		it.Id = []byte{1, 2, 3}
		return &it, nil
	}
	return s.items[s.pos-1], nil
}

func (c *memSearchClient) Search(ctx context.Context, in *pb.SearchRequest, opts ...grpc.CallOption) (pb.Search_SearchClient, error) {
	if err := c.to.check("Search"); err != nil {
		return nil, err
	}
	st := &memStream{ctx: ctx}
	if err := services.NewSearchServer(c.to.dm).Search(in, st); err != nil {
		return nil, err
	}
	return st, nil
}

// searchRec records what every node answered to SearchPartitions while a harness-driven Dataset.Search runs
// (the actual worker messages of the fan-in; re-running the searches would not reproduce them exactly).
var searchRec struct {
	mu   sync.Mutex
	on   bool
	msgs []recMsg
}

type recMsg struct {
	node  uint64
	err   bool
	items []*pb.SearchResultItem
	parts [][]byte // the partition ids this node was asked for
}

func (c *memSearchClient) SearchPartitions(ctx context.Context, in *pb.SearchPartitionsRequest, opts ...grpc.CallOption) (pb.Search_SearchPartitionsClient, error) {
	rec := func(err bool, items []*pb.SearchResultItem) {
		searchRec.mu.Lock()
		if searchRec.on {
			searchRec.msgs = append(searchRec.msgs, recMsg{c.to.id, err, items, in.GetPartitionIds()})
		}
		searchRec.mu.Unlock()
	}
	if err := c.to.check("SearchPartitions"); err != nil {
		rec(true, nil)
		return nil, err
	}
	st := &memStream{ctx: ctx}
	if err := services.NewSearchServer(c.to.dm).SearchPartitions(in, st); err != nil {
		rec(true, nil)
		return nil, err
	}
	c.to.mu.Lock()
	st.fault = c.to.streamFault
	c.to.mu.Unlock()
	if st.fault == "break" || (st.fault == "badid" && len(st.items) > 0) {
		rec(true, nil) // the worker for this node has to report an error
		return st, nil
	}
	rec(false, append([]*pb.SearchResultItem(nil), st.items...))
	return st, nil
}
