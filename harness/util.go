package main

import (
	"context"
	"crypto/sha256"
	"encoding/hex"
	"encoding/json"
	"fmt"
	"os"
	"os/exec"
	"path/filepath"
	"strings"
	"time"

	"github.com/sirupsen/logrus"
)

// stats is what every sub-command reports back to bin/check (merged into the evidence file).
type stats struct {
	Evaluations        int                    `json:"evaluations"`
	DistinctNontrivial int                    `json:"distinct_nontrivial"`
	Rule               string                 `json:"rule"`
	Distribution       map[string]int         `json:"distribution"`
	Samples            []interface{}          `json:"samples"`
	ImplFailures       []implFailure          `json:"impl_failures"` // property violated on the implementation (Go-side oracle)
	Extra              map[string]interface{} `json:"extra,omitempty"`
}

type implFailure struct {
	Case  int         `json:"case"`
	What  string      `json:"what"`
	Key   string      `json:"key"` // matched against known_findings.json
	Input interface{} `json:"input"`
}

func newStats(rule string) *stats {
	return &stats{Rule: rule, Distribution: map[string]int{}, Extra: map[string]interface{}{}}
}

func (s *stats) count(k string) { s.Distribution[k]++ }

func writeJSON(path string, v interface{}) error {
	b, err := json.MarshalIndent(v, "", " ")
	if err != nil {
		return err
	}
	return os.WriteFile(path, b, 0644)
}

func hashOf(v interface{}) string {
	b, _ := json.Marshal(v)
	h := sha256.Sum256(b)
	return hex.EncodeToString(h[:8])
}

// coqList renders a Coq list with line breaks between elements.
func coqList(items []string) string {
	if len(items) == 0 {
		return "[]"
	}
	return "[" + strings.Join(items, ";\n   ") + "]"
}

func writeFile(dir, name, content string) error {
	return os.WriteFile(filepath.Join(dir, name), []byte(content), 0644)
}

// recoverPanic runs f and reports whether it panicked (a panic in a handler or apply loop = process death).
func recoverPanic(f func()) (panicked bool, msg string) {
	defer func() {
		if r := recover(); r != nil {
			panicked = true
			msg = panicText(r)
		}
	}()
	f()
	return
}

// readReplayCase loads the "case" member of a replay file (envelope described in DESIGN appendix).
func readReplayCase(path string, into interface{}) error {
	b, err := os.ReadFile(path)
	if err != nil {
		return err
	}
	var env struct {
		Case json.RawMessage `json:"case"`
	}
	if err := json.Unmarshal(b, &env); err != nil {
		return err
	}
	if env.Case == nil {
		return fmt.Errorf("replay file has no case")
	}
	return json.Unmarshal(env.Case, into)
}

// writeShards writes cases_000.v, cases_001.v, … each holding at most per cases:
//
//	<prelude> Definition cases : list <typ> := [ … ]. <defs>
//
// defs must define and Print bad_model / bad_oracle (lists of failing case indices within the shard).
func writeShards(dir, prelude, typ string, items []string, defs string, per int) error {
	old, _ := filepath.Glob(filepath.Join(dir, "cases_*.v"))
	for _, f := range old {
		os.Remove(f)
	}
	for k := 0; k*per < len(items) || k == 0; k++ {
		lo, hi := k*per, (k+1)*per
		if hi > len(items) {
			hi = len(items)
		}
		v := prelude + fmt.Sprintf("Definition cases : list (%s) :=\n  %s.\n", typ, coqList(items[lo:hi])) + defs
		if err := writeFile(dir, fmt.Sprintf("cases_%03d.v", k), v); err != nil {
			return err
		}
		if hi >= len(items) {
			break
		}
	}
	return writeJSON(filepath.Join(dir, "shards.json"), map[string]int{"per": per, "total": len(items)})
}

func f32bits(f float32) uint32     { return mathFloat32bits(f) }
func f32frombits(b uint32) float32 { return mathFloat32frombits(b) }

// runIsolated re-executes this binary on one case (written as a replay envelope) in a child process with an
// address-space limit and a timeout.  A child that dies (fatal error, OOM, timeout) is reported as crashed.
// address-space limit of an isolated child (kB); on-disk Badger maps gigabytes of value log
var isoVmemKB = 3000000

// isoTimeout: how long an isolated case may run before it is killed (and counted as died)
var isoTimeout = 60 * time.Second

func runIsolated(id string, caseObj interface{}, a *args, idx int) (st *stats, crashed bool, tail string) {
	dir := filepath.Join(a.out, fmt.Sprintf("iso_%04d", idx))
	os.MkdirAll(dir, 0755)
	defer os.RemoveAll(dir)
	rp := filepath.Join(dir, "case.json")
	writeJSON(rp, map[string]interface{}{"case": caseObj})
	exe, _ := os.Executable()
	ctx, cancel := context.WithTimeout(context.Background(), isoTimeout)
	defer cancel()
	cmd := exec.CommandContext(ctx, "sh", "-c", fmt.Sprintf("%sexec %s %s -replay %s -out %s -tier %s -seed %d", map[bool]string{true: "", false: fmt.Sprintf("ulimit -v %d; ", isoVmemKB)}[isoVmemKB == 0], exe, id, rp, dir, a.tier, a.seed))
	out, err := cmd.CombinedOutput()
	if err != nil {
		t := ""
		if k := strings.Index(string(out), "WARNING: DATA RACE"); k >= 0 {
			// the two conflicting accesses with their top frames
			lines := strings.Split(string(out)[k:], "\n")
			for i, ln := range lines {
				if i > 40 {
					break
				}
				ln = strings.TrimSpace(ln)
				if strings.HasPrefix(ln, "WARNING: DATA RACE") || strings.HasPrefix(ln, "Write at") || strings.HasPrefix(ln, "Read at") || strings.HasPrefix(ln, "Previous ") || strings.HasPrefix(ln, "github.com/marekgalovic/anndb/") {
					t += ln + " | "
				}
			}
		}
		for _, ln := range strings.Split(string(out), "\n") {
			if t != "" {
				break
			}
			if strings.HasPrefix(ln, "panic:") || strings.HasPrefix(ln, "fatal error:") || strings.Contains(ln, "level=fatal") || strings.Contains(ln, "[signal ") {
				t += ln + " | "
			}
		}
		if t == "" {
			t = string(out)
			if len(t) > 600 {
				t = t[len(t)-600:]
			}
		}
		if len(t) > 800 {
			t = t[:800]
		}
		return nil, true, fmt.Sprintf("%v: %s", err, t)
	}
	var s stats
	b, rerr := os.ReadFile(filepath.Join(dir, "stats.json"))
	if rerr != nil || json.Unmarshal(b, &s) != nil {
		return nil, true, "child wrote no stats"
	}
	return &s, false, ""
}

func b(v bool) string {
	if v {
		return "true"
	}
	return "false"
}

// panicText renders a recovered panic value (logrus panics with the *Entry itself)
func panicText(p interface{}) string {
	if e, ok := p.(*logrus.Entry); ok {
		return e.Message
	}
	return fmt.Sprint(p)
}
