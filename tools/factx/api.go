package main

import (
	"regexp"
	"strings"
)

func init() { extraExtractors = append(extraExtractors, factsApi) }

func factsApi() {
	// ---- DatasetManager.Create checks the parameters before anything else
	cr, f1 := bodyText("storage/dataset_manager.go", "DatasetManager", "Create")
	if f1 == nil {
		unrec("dataset_params_checked", "bool", "DatasetManager.Create not found")
	} else {
		chk := "if _, knownSpace := pb.Space_name[int32(dataset.GetSpace())]; !knownSpace || dataset.GetDimension() < 1 || dataset.GetPartitionCount() < 1 || dataset.GetPartitionCount() > maxPartitionCount || dataset.GetReplicationFactor() < 1 { return nil, InvalidDatasetErr }"
		known("dataset_params_checked", "bool", b(strings.HasPrefix(strings.TrimSpace(strings.TrimPrefix(cr, "{")), chk)), "Create refuses unknown spaces, dimension 0, partition counts outside 1..max and replication factor 0 before doing anything")
	}
	f := parse("storage/dataset_manager.go")
	mp := ""
	if f != nil {
		if m := regexp.MustCompile(`const maxPartitionCount uint32 = (\d+)`).FindStringSubmatch(src(f)); m != nil {
			mp = m[1]
		}
	}
	if mp == "" {
		unrec("max_partition_count", "N", "maxPartitionCount not found")
	} else {
		known("max_partition_count", "N", mp+"%N", "upper bound on the partition count of a dataset")
	}
	// known spaces: 0..2
	pbf := parse("protobuf/dataset.pb.go")
	if pbf == nil {
		unrec("space_count", "N", "protobuf/dataset.pb.go not found")
	} else {
		m := regexp.MustCompile(`(?s)var Space_name = map\[int32\]string\{(.*?)\}`).FindStringSubmatch(src(pbf))
		if m == nil {
			unrec("space_count", "N", "Space_name not found")
		} else {
			n := len(regexp.MustCompile(`\d+:`).FindAllString(m[1], -1))
			known("space_count", "N", itoa(n)+"%N", "number of known spaces (values 0..n-1)")
		}
	}
	// ---- every write path goes through checkBatchItems / Validate
	cb, f2 := bodyText("storage/dataset.go", "Dataset", "checkBatchItems")
	ok := f2 != nil &&
		strings.Contains(cb, "id, err := uuid.FromBytes(item.GetId()) if err == nil && withValue { value := math.Vector(item.GetValue()) err = this.checkDimension(&value) if err == nil { err = index.Metadata(item.GetMetadata()).Validate() } } if err != nil { errors[id] = err } else { checkedItems = append(checkedItems, item) }")
	why := ""
	for _, fn := range []struct {
		name, call, sink string
	}{
		{"BatchInsert", "checkedItems, errors := this.checkBatchItems(items, true)", "ctx, checkedItems,"},
		{"BatchUpdate", "checkedItems, errors := this.checkBatchItems(items, true)", "ctx, checkedItems,"},
		{"BatchRemove", "checkedItems, errors := this.checkBatchItems(items, false)", "ctx, checkedItems,"},
		{"PartitionBatchInsert", "checkedItems, errors := this.checkBatchItems(items, true)", "partition.batchInsert(ctx, checkedItems)"},
		{"PartitionBatchUpdate", "checkedItems, errors := this.checkBatchItems(items, true)", "partition.batchUpdate(ctx, checkedItems)"},
		{"PartitionBatchRemove", "checkedItems, errors := this.checkBatchItems(items, false)", "partition.batchRemove(ctx, checkedItems)"},
	} {
		body, fd := bodyText("storage/dataset.go", "Dataset", fn.name)
		if fd == nil || !strings.Contains(body, fn.call) || !strings.Contains(body, fn.sink) || !strings.Contains(body, "if len(items) > maxBatchRequestSize { return nil, BatchRequestTooLargerErr }") ||
			(strings.HasPrefix(fn.name, "Partition") && strings.Contains(body, "(ctx, items)")) || strings.Contains(body, "ctx, items, func(client") {
			ok = false
			why += fn.name + " "
		}
	}
	for _, fn := range []string{"Insert", "Update"} {
		body, fd := bodyText("storage/dataset.go", "Dataset", fn)
		if fd == nil || !strings.HasPrefix(strings.TrimSpace(strings.TrimPrefix(body, "{")), "if err := this.checkDimension(&value); err != nil { return err } if err := metadata.Validate(); err != nil { return err }") {
			ok = false
			why += fn + " "
		}
	}
	// the single-item services parse the id before calling the dataset
	svc := parse("services/data_manager.go")
	if svc == nil || strings.Count(norm(src(svc)), "id, err := uuid.FromBytes(req.GetId()) if err != nil { return nil, err }") != 3 {
		ok = false
		why += "services "
	}
	known("write_paths_check_items", "bool", b(ok), "ids, dimension and metadata size are checked on every write path before an item is logged"+why)
	// ---- Validate's bounds are the widths save writes
	va, f3 := bodyText("index/metadata.go", "Metadata", "Validate")
	sv, f4 := bodyText("index/metadata.go", "Metadata", "save")
	kv, f5 := bodyText("index/metadata.go", "Metadata", "saveKV")
	if f3 == nil || f4 == nil || f5 == nil {
		known("metadata_bounds_match_codec", "bool", "false", "Metadata.Validate / save / saveKV not found")
	} else {
		known("metadata_bounds_match_codec", "bool", b(strings.Contains(va, "if len(this) > math.MaxUint16 { return MetadataTooLargeErr }") &&
			strings.Contains(va, "if len(k) > math.MaxUint8 || len(v) > math.MaxUint16 { return MetadataTooLargeErr }") &&
			strings.Contains(sv, "uint16(len(this))") && strings.Contains(kv, "uint8(len(k))") && strings.Contains(kv, "uint16(len(v))")),
			"Validate bounds entry count, key and value length by the integer widths save writes them with")
	}
	// ---- updates validate the merged metadata before touching the index
	uv, f6 := bodyText("storage/partition.go", "partition", "updateValue")
	bu, f7 := bodyText("storage/partition.go", "partition", "batchUpdateValue")
	if f6 == nil || f7 == nil {
		unrec("update_checks_merged_metadata", "bool", "updateValue / batchUpdateValue not found")
	} else {
		mergeLoop := "for k, v := range vertex.Metadata() { if _, exists := metadata[k]; !exists { metadata[k] = v } }"
		i0, i1, i2 := strings.Index(uv, mergeLoop), strings.Index(uv, "if err := metadata.Validate(); err != nil { this.notificator.Notify(notificationId, err, false) return nil }"), strings.Index(uv, "this.index.Remove(id)")
		j0, j1, j2 := strings.Index(bu, mergeLoop), strings.Index(bu, "if err := index.Metadata(metadata).Validate(); err != nil { errors[id] = err continue }"), strings.Index(bu, "this.index.Remove(id)")
		known("update_checks_merged_metadata", "bool", b(i0 >= 0 && i1 > i0 && i2 > i1 && j0 >= 0 && j1 > j0 && j2 > j1), "updates merge, then refuse merged metadata beyond the encoding, then remove the old item")
	}
	// ---- searches
	se, f8 := bodyText("storage/dataset.go", "Dataset", "Search")
	sp, f9 := bodyText("storage/dataset.go", "Dataset", "SearchPartitions")
	sn, f10 := bodyText("storage/dataset.go", "Dataset", "searchPartitionsOnNode")
	hs, f11 := bodyText("index/hnsw.go", "Hnsw", "Search")
	if f8 == nil || f9 == nil || f10 == nil || f11 == nil {
		unrec("search_checks_dimension", "bool", "Search functions not found")
		unrec("search_reserves_by_k", "bool", "Search functions not found")
	} else {
		pre := "if err := this.checkDimension(&query); err != nil { return nil, err }"
		known("search_checks_dimension", "bool", b(strings.HasPrefix(strings.TrimSpace(strings.TrimPrefix(se, "{")), pre) && strings.HasPrefix(strings.TrimSpace(strings.TrimPrefix(sp, "{")), pre)), "Search and SearchPartitions check the query dimension first")
		byK := regexp.MustCompile(`make\([^)]*\bk\b[^)]*\)`)
		known("search_reserves_by_k", "bool", b(byK.MatchString(se) || byK.MatchString(sp) || byK.MatchString(sn) || !strings.Contains(hs, "math.MinInt(int(k), int(this.Len()))")), "some search path allocates in proportion to k")
	}
	rn, f12 := bodyText("storage/partition.go", "partition", "randomNodeId")
	if f12 == nil {
		unrec("random_node_total", "bool", "randomNodeId not found")
	} else {
		known("random_node_total", "bool", b(strings.Contains(rn, "if len(nodeIds) == 0 {") && strings.Index(rn, "if len(nodeIds) == 0 {") < strings.Index(rn, "rand.Intn(len(nodeIds))")), "randomNodeId does not draw from an empty replica list")
	}
}

func itoa(n int) string {
	s := ""
	if n == 0 {
		return "0"
	}
	for n > 0 {
		s = string(rune('0'+n%10)) + s
		n /= 10
	}
	return s
}
