package main

// C11: the fan-in of the batch write paths.  Every partition worker hands its result to the collector with a plain
// (blocking) send on every path; the collector makes one receive per partition on an unbuffered channel that is closed
// only after all workers have returned - the transition system of Proto/BatchFanIn.v with blocking = true.

import (
	"go/ast"
	"strings"
)

func init() { extraExtractors = append(extraExtractors, factsBatchFanIn) }

func factsBatchFanIn() {
	const name, typ = "batch_results_sent_blocking", "bool"
	fd := findFunc("storage/dataset.go", "Dataset", "handlePartitionBatchRequest")
	ct, cfd := bodyText("storage/dataset.go", "Dataset", "partitionsBatchRequest")
	if fd == nil || cfd == nil {
		unrec(name, typ, "handlePartitionBatchRequest / partitionsBatchRequest not found")
		return
	}
	why := ""
	// no select, no call that receives the channel (a helper could send differently), every return directly after a send
	sends, returns := 0, 0
	ast.Inspect(fd.Body, func(x ast.Node) bool {
		switch y := x.(type) {
		case *ast.SelectStmt:
			why = "select in the worker"
		case *ast.FuncLit:
			why = "function literal in the worker"
		case *ast.CallExpr:
			for _, a := range y.Args {
				if norm(src(a)) == "resultCh" {
					why = "resultCh passed to " + callName(y)
				}
			}
		case *ast.BlockStmt:
			for i, st := range y.List {
				if _, ok := st.(*ast.ReturnStmt); ok {
					returns++
					if i == 0 {
						why = "a return that does not follow a send"
						continue
					}
					if s, ok := y.List[i-1].(*ast.SendStmt); !ok || norm(src(s.Chan)) != "resultCh" {
						why = "a return that does not follow a send"
					}
				}
				if s, ok := st.(*ast.SendStmt); ok && norm(src(s.Chan)) == "resultCh" {
					sends++
				}
			}
		}
		return true
	})
	if n := len(fd.Body.List); n == 0 {
		why = "empty worker"
	} else if _, ok := fd.Body.List[n-1].(*ast.ReturnStmt); !ok {
		why = "the worker can fall off its end without sending"
	}
	if sends != returns || sends == 0 {
		why = "sends and returns do not pair up"
	}
	if d, ok := fd.Body.List[0].(*ast.DeferStmt); !ok || norm(src(d.Call)) != "wg.Done()" {
		why = "wg.Done() is not deferred first"
	}
	collector := strings.Contains(ct, "resultCh := make(chan partitionBatchResult) ") &&
		strings.Contains(ct, "for partition, items := range partitionItems { wg.Add(1) go this.handlePartitionBatchRequest(ctx, partition, items, wg, resultCh, remoteFn, localFn) }") &&
		strings.Contains(ct, "go func() { wg.Wait() close(resultCh) }()") &&
		strings.Contains(ct, "for i := 0; i < len(partitionItems); i++ { select { case result := <-resultCh: for id, err := range result { errors[id] = err } case <-ctx.Done(): return nil, ctx.Err() } } return errors, nil }") &&
		strings.Count(ct, "resultCh") == 4
	if !collector {
		why = "collector changed"
	}
	if why != "" {
		known(name, typ, "false", why)
		return
	}
	known(name, typ, "true", "every path of the partition worker ends `resultCh <- result; return`; unbuffered channel, one receive per partition, closed after wg.Wait()")
}
