package main

import "strings"

func init() { extraExtractors = append(extraExtractors, factsHnsw) }

func factsHnsw() {
	rm, fd := bodyText("index/hnsw.go", "Hnsw", "Remove")
	if fd == nil {
		unrec("handover_skips_deleted", "bool", "Remove not found")
		unrec("handover_falls_back", "bool", "Remove not found")
	} else {
		i := strings.Index(rm, "for neighbor, distance := range current.edges[l] {")
		j := strings.Index(rm, "if distance < minDistance {")
		skip := i >= 0 && j > i && strings.Contains(rm[i:j], "if neighbor.isDeleted() { continue }")
		if i < 0 || j < 0 {
			unrec("handover_skips_deleted", "bool", "hand-over loop changed")
		} else {
			known("handover_skips_deleted", "bool", b(skip), "Remove: the entry-point hand-over ignores tombstoned neighbours")
		}
		fb := strings.Contains(rm, "if closestNeighbor == nil { // No live linked neighbor") || strings.Contains(rm, "if closestNeighbor == nil { closestNeighbor = this.highestRemainingVertex() }")
		cas := strings.Index(rm, "atomic.CompareAndSwapPointer(&this.entrypoint, currEntrypoint, unsafe.Pointer(closestNeighbor))")
		k := strings.Index(rm, "closestNeighbor = this.highestRemainingVertex()")
		known("handover_falls_back", "bool", b(fb && k >= 0 && cas > k), "Remove: with no live linked neighbour any remaining vertex of the highest level becomes the entry point")
		rv := strings.Index(rm, "this.removeVertex(id)")
		lp := strings.Index(rm, "for { currEntrypoint := atomic.LoadPointer(&this.entrypoint) current := (*hnswVertex)(currEntrypoint) if current == nil || !current.isDeleted() { break }")
		known("handover_repeats_while_tombstoned", "bool", b(rv >= 0 && lp > rv && cas > lp), "Remove: after the tombstone, the hand-over is repeated while the entry point is a tombstoned vertex")
	}
	sl, f2 := bodyText("index/hnsw.go", "Hnsw", "searchLevel")
	gr, f3 := bodyText("index/hnsw.go", "Hnsw", "greedyClosestNeighbor")
	if f2 == nil || f3 == nil {
		unrec("search_skips_deleted", "bool", "searchLevel/greedyClosestNeighbor not found")
		unrec("search_score_is_query_distance", "bool", "searchLevel not found")
	} else {
		ok := strings.Contains(sl, "for neighbor, _ := range candidate.edges[level] { if neighbor.isDeleted() { continue }") &&
			strings.Contains(gr, "for neighbor, _ := range entrypoint.edges[level] { if neighbor.isDeleted() { continue }")
		known("search_skips_deleted", "bool", b(ok), "searchLevel and greedyClosestNeighbor skip tombstoned neighbours")
		known("search_skips_dead_entry", "bool", b(strings.Contains(sl, "resultVertices := utils.NewMaxPriorityQueue() if !entrypoint.isDeleted() {") && strings.Contains(sl, "resultVertices.Push(pqItem) }") &&
			strings.Contains(sl, "lowerBound := float32(math.MaxFloat) if resultVertices.Len() > 0 { lowerBound = resultVertices.Peek().Priority() }")), "searchLevel does not put a tombstoned entry point into its results")
		ins, fi := bodyText("index/hnsw.go", "Hnsw", "Insert")
		known("insert_promotes_by_cas_loop", "bool", b(fi != nil &&
			strings.Contains(ins, "for { current := atomic.LoadPointer(&this.entrypoint) if current != nil && vertex.level <= (*hnswVertex)(current).level { break } if atomic.CompareAndSwapPointer(&this.entrypoint, current, unsafe.Pointer(vertex)) { break } }") &&
			!strings.Contains(ins, "CompareAndSwapPointer(&this.entrypoint, this.entrypoint") && !strings.Contains(ins, "vertex.setLevel(") &&
			strings.Contains(ins, "if entrypoint == nil {")), "Insert: the entry point is promoted by a compare-and-swap loop on the loaded value; a published vertex is not re-sized; a vanished entry point is handled")
		sv, f5 := bodyText("index/hnsw.go", "Hnsw", "storeVertex")
		rmv, f6 := bodyText("index/hnsw.go", "Hnsw", "removeVertex")
		known("membership_under_shard_lock", "bool", b(f5 != nil && f6 != nil && strings.Contains(sv, "defer mu.Unlock() mu.Lock()") && strings.Contains(rmv, "defer mu.Unlock() mu.Lock()") &&
			strings.Contains(rmv, "delete(m, id)") && strings.Index(rmv, "vertex.setDeleted()") > strings.Index(rmv, "delete(m, id)")), "storeVertex / removeVertex change the id map, the counters and the tombstone under the shard's lock")
		sc := strings.Contains(sl, "distance := this.space.Distance(query, neighbor.vector)") &&
			strings.Contains(sl, "pqItem := utils.NewPriorityQueueItem(distance, neighbor)") &&
			strings.Contains(sl, "entrypointDistance := this.space.Distance(query, entrypoint.vector)")
		se, f4 := bodyText("index/hnsw.go", "Hnsw", "Search")
		sc = sc && f4 != nil && strings.Contains(se, "result[i].Score = item.Priority()") && strings.Contains(se, "result[i].Metadata = item.Value().(*hnswVertex).Metadata()")
		known("search_score_is_query_distance", "bool", b(sc), "queue priorities are space.Distance(query, vertex.vector); Search copies them into Score")
	}
	ok := true
	for _, fn := range []string{"Search", "SearchPartitions"} {
		txt, f := bodyText("storage/dataset.go", "Dataset", fn)
		if f == nil || !strings.Contains(txt, "sort.Sort(result) return result[:math.MinInt(int(k), len(result))], nil") || !strings.Contains(txt, "result = append(result, items...)") {
			ok = false
		}
	}
	known("dataset_merge_sort_then_truncate", "bool", b(ok), "Dataset.Search / SearchPartitions: append, sort.Sort, then truncate to k")
	// C07 facts
	se, f5 := bodyText("index/hnsw.go", "Hnsw", "Search")
	ins, f6 := bodyText("index/hnsw.go", "Hnsw", "Insert")
	if f5 == nil || f6 == nil {
		unrec("search_beam_is_max_ef_k", "bool", "Search/Insert not found")
		unrec("level0_uses_mmax0", "bool", "Insert not found")
		unrec("links_both_ways", "bool", "Insert not found")
	} else {
		known("search_beam_is_max_ef_k", "bool", b(strings.Contains(se, "ef := math.MaxInt(this.config.ef, math.MinInt(int(k), int(this.Len()))) neighbors := this.searchLevel(query, entrypoint, ef, 0)")), "Search: level-0 beam width max(ef, min(k, Len()))")
		known("level0_uses_mmax0", "bool", b(strings.Contains(ins, "mMax := this.config.mMax if l == 0 { mMax = this.config.mMax0 }") && strings.Contains(ins, "if neighbor.edgesCount(l) > mMax { this.pruneNeighbors(neighbor, mMax, l) }")), "Insert: a neighbour is pruned only when it exceeds mMax (mMax0 on level 0)")
		known("links_both_ways", "bool", b(strings.Contains(ins, "vertex.addEdge(l, neighbor, item.Priority()) neighbor.addEdge(l, vertex, item.Priority())")), "Insert links the new vertex and each selected neighbour in both directions")
	}
}
