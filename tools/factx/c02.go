package main

import (
	"go/ast"
	"strings"
)

func init() { extraExtractors = append(extraExtractors, factsStore) }

// bodyText returns the normalised source of a function body.
func bodyText(rel, recv, name string) (string, *ast.FuncDecl) {
	fd := findFunc(rel, recv, name)
	if fd == nil {
		return "", nil
	}
	return norm(src(fd.Body)), fd
}

func factsStore() {
	// ---- update paths: nil incoming map allocated before the merge; merge keeps old keys; old level reused
	alloc, merge, level := true, true, true
	why := ""
	for _, fn := range []string{"updateValue", "batchUpdateValue"} {
		txt, fd := bodyText("storage/partition.go", "partition", fn)
		if fd == nil {
			alloc, merge, level, why = false, false, false, fn+" not found"
			break
		}
		mi := strings.Index(txt, "for k, v := range vertex.Metadata() { if _, exists := metadata[k]; !exists { metadata[k] = v } }")
		if mi < 0 {
			merge, why = false, fn+": merge loop changed"
		}
		ai := strings.Index(txt, "if metadata == nil { metadata = make(")
		if ai < 0 || (mi >= 0 && ai > mi) {
			alloc = false
		}
		if !strings.Contains(txt, "metadata, vertex.Level())") {
			level, why = false, fn+": re-insert not at vertex.Level()"
		}
		// order: GetVertex, merge (old keys under the incoming ones), Remove, Insert — the merge reads the vertex fetched
		// before the removal, so it may come before or after Remove
		g, r, i := strings.Index(txt, "this.index.GetVertex(id)"), strings.Index(txt, "this.index.Remove(id)"), strings.Index(txt, "this.index.Insert(id,")
		if !(g >= 0 && g < r && g < mi && mi < i && r < i) {
			merge, why = false, fn+": GetVertex/merge/Remove/Insert order changed"
		}
	}
	if why != "" && !merge {
		unrec("update_merge_keeps_old", "bool", why)
	} else {
		known("update_merge_keeps_old", "bool", b(merge), "updateValue/batchUpdateValue: GetVertex; old keys copied under the incoming ones; Remove; Insert")
	}
	known("update_allocates_nil_map", "bool", b(alloc), "incoming nil metadata map is allocated before the merge writes into it")
	if level {
		known("update_reuses_level", "bool", "true", "re-insert at vertex.Level()")
	} else {
		unrec("update_reuses_level", "bool", why)
	}

	// ---- counters in storeVertex / removeVertex
	st, fd1 := bodyText("index/hnsw.go", "Hnsw", "storeVertex")
	rm, fd2 := bodyText("index/hnsw.go", "Hnsw", "removeVertex")
	if fd1 == nil || fd2 == nil {
		unrec("store_counters_shape", "bool", "storeVertex/removeVertex not found")
	} else {
		ok := strings.Contains(st, "if _, exists := m[vertex.id]; exists { return ItemAlreadyExistsError }") &&
			strings.Contains(st, "m[vertex.id] = vertex atomic.AddUint64(&this.len, 1) atomic.AddUint64(&this.bytesSize, vertex.bytesSize()) return nil") &&
			strings.Contains(rm, "if vertex, exists := m[id]; exists { delete(m, id) atomic.AddUint64(&this.len, ^uint64(0)) atomic.AddUint64(&this.bytesSize, ^uint64(vertex.bytesSize()-1)) vertex.setDeleted() return vertex, nil }") &&
			strings.Contains(rm, "return nil, ItemNotFoundError")
		if ok {
			known("store_counters_shape", "bool", "true", "storeVertex/removeVertex: existence check, map update, len±1, bytes±vertex.bytesSize() by two's complement")
		} else {
			unrec("store_counters_shape", "bool", "storeVertex/removeVertex changed: "+st+" || "+rm)
		}
	}
	// vertex.bytesSize
	if bs, fd := bodyText("index/hnsw_vertex.go", "hnswVertex", "bytesSize"); fd == nil {
		unrec("vertex_bytes_shape", "bool", "bytesSize not found")
	} else if bs == "{ return uuid.Size + math.VECTOR_COMPONENT_BYTES_SIZE*uint64(len(this.vector)) + this.metadata.bytesSize() }" {
		known("vertex_bytes_shape", "bool", "true", "16 + 4*len(vector) + metadata bytes")
	} else {
		unrec("vertex_bytes_shape", "bool", bs)
	}
	// the six dispatches of partition.process
	if txt, fd := bodyText("storage/partition.go", "partition", "process"); fd == nil {
		unrec("process_dispatch_shape", "bool", "process not found")
	} else {
		want := []string{
			"case pb.PartitionChangeType_PartitionChangeInsertValue:", "return this.insertValue(notificationId, id, change.GetValue(), change.GetMetadata(), int(change.GetLevel()))",
			"case pb.PartitionChangeType_PartitionChangeUpdateValue:", "return this.updateValue(notificationId, id, change.GetValue(), change.GetMetadata())",
			"case pb.PartitionChangeType_PartitionChangeDeleteValue:", "return this.deleteValue(notificationId, id)",
			"case pb.PartitionChangeType_PartitionChangeBatchInsertValue: return this.batchInsertValue(notificationId, change.GetBatchItems())",
			"case pb.PartitionChangeType_PartitionChangeBatchUpdateValue: return this.batchUpdateValue(notificationId, change.GetBatchItems())",
			"case pb.PartitionChangeType_PartitionChangeBatchDeleteValue: return this.batchDeleteValue(notificationId, change.GetBatchItems())",
		}
		ok := true
		for _, w := range want {
			if !strings.Contains(txt, w) {
				ok = false
			}
		}
		if ok {
			known("process_dispatch_shape", "bool", "true", "partition.process dispatches the six change kinds to the six *Value functions")
		} else {
			unrec("process_dispatch_shape", "bool", "process dispatch changed")
		}
	}
	// partition snapshot = index.Save(w, false); restore = index.Load(r, false)
	sn, f1 := bodyText("storage/partition.go", "partition", "snapshot")
	ps, f2 := bodyText("storage/partition.go", "partition", "processSnapshot")
	if f1 == nil || f2 == nil {
		unrec("snapshot_is_index_save", "bool", "snapshot/processSnapshot not found")
	} else if strings.HasPrefix(sn, "{ var buf bytes.Buffer if err := this.index.Save(&buf, false); err != nil { return nil, err }") && strings.HasSuffix(sn, "return buf.Bytes(), nil }") &&
		strings.HasPrefix(ps, "{ err := this.index.Load(bytes.NewBuffer(data), false)") && strings.HasSuffix(ps, "return err }") &&
		strings.Count(ps, "return") == 1 && strings.Count(sn, "return") == 2 {
		known("snapshot_is_index_save", "bool", "true", "partition.snapshot = index.Save(buf, false); processSnapshot = index.Load(data, false)")
	} else {
		unrec("snapshot_is_index_save", "bool", "snapshot/processSnapshot changed")
	}
}
