package main

import "strings"

func init() { extraExtractors = append(extraExtractors, factsWal) }

func factsWal() {
	save, fd := bodyText("storage/wal/badger.go", "badgerWAL", "Save")
	if fd == nil {
		unrec("wal_save_snapshot_first", "bool", "Save not found")
	} else {
		iw := strings.Index(save, "this.writeEntries(batch, entries)")
		ih := strings.Index(save, "this.writeHardState(batch, hardState)")
		is := strings.Index(save, "this.writeSnapshot(batch, snapshot)")
		id := strings.Index(save, "this.deleteEntriesFromIndex(batch, 0)")
		il := strings.Index(save, "this.cache.Store(cacheLastIndexKey, snapshot.Metadata.Index)")
		switch {
		case iw < 0 || ih < 0 || is < 0 || id < 0 || !strings.Contains(save, "return batch.Flush()"):
			unrec("wal_save_snapshot_first", "bool", "Save no longer has the four steps")
		case id < is && is < iw && iw < ih && il > is && il < iw:
			known("wal_save_snapshot_first", "bool", "true", "Save: delete old log; write snapshot + its entry; reset cached last index; entries; hard state")
		case iw < ih && ih < is && is < id && il < 0:
			known("wal_save_snapshot_first", "bool", "false", "Save: entries; hard state; snapshot; then delete the whole log (original order)")
		default:
			unrec("wal_save_snapshot_first", "bool", "Save steps in an unmodelled order")
		}
	}
	dg, fd2 := bodyText("storage/wal/badger.go", "badgerWAL", "DeleteGroup")
	if fd2 == nil {
		unrec("wal_delete_group_complete", "bool", "DeleteGroup not found")
	} else if !strings.Contains(dg, "this.reset(nil)") {
		unrec("wal_delete_group_complete", "bool", "DeleteGroup no longer resets the entries")
	} else {
		known("wal_delete_group_complete", "bool", b(strings.Contains(dg, "this.hardStateKey()") && strings.Contains(dg, "this.snapshotKey()") && strings.Count(dg, "Delete(") >= 2),
			"DeleteGroup removes entries, hard state and snapshot")
	}
	// key layout: group id (16) ++ big-endian index (8); "hs"/"ss" ++ group id
	ek, f3 := bodyText("storage/wal/badger.go", "badgerWAL", "entryKey")
	hk, f4 := bodyText("storage/wal/badger.go", "badgerWAL", "hardStateKey")
	sk, f5 := bodyText("storage/wal/badger.go", "badgerWAL", "snapshotKey")
	if f3 == nil || f4 == nil || f5 == nil {
		unrec("wal_key_layout", "bool", "key functions not found")
	} else if ek == "{ b := make([]byte, 24) copy(b[0:16], this.entryPrefix()) binary.BigEndian.PutUint64(b[16:24], idx) return b }" &&
		hk == `{ b := make([]byte, 18) copy(b[0:2], []byte("hs")) copy(b[2:18], this.groupId.Bytes()) return b }` &&
		sk == `{ b := make([]byte, 18) copy(b[0:2], []byte("ss")) copy(b[2:18], this.groupId.Bytes()) return b }` {
		known("wal_key_layout", "bool", "true", "entry key = group id ++ BE64(index); hard state / snapshot keys = \"hs\"/\"ss\" ++ group id")
	} else {
		unrec("wal_key_layout", "bool", "key layout changed")
	}
}

// C03: every durable change of the log store is one write batch - Save and CreateSnapshot each open one batch, put all
// their writes and deletions into it (CreateSnapshot: the snapshot record before the deletion of the compacted entries)
// and flush it once, so a crash leaves either the state before the call or the state after it.
func init() { extraExtractors = append(extraExtractors, factsWalAtomic) }

func factsWalAtomic() {
	const name, typ = "wal_calls_one_batch", "bool"
	why := ""
	for _, fn := range []string{"Save", "CreateSnapshot"} {
		txt, fd := bodyText("storage/wal/badger.go", "badgerWAL", fn)
		if fd == nil {
			unrec(name, typ, fn+" not found")
			return
		}
		if strings.Count(txt, "this.db.NewWriteBatch()") != 1 || strings.Count(txt, ".Flush()") != 1 || !strings.HasSuffix(txt, "batch.Flush() }") {
			why = fn + " does not consist of one write batch flushed at its end"
		}
		// no helper that could open a batch of its own: every call on the receiver takes the batch (or only reads)
		for _, c := range calls(fd.Body) {
			cn := callName(c)
			if !strings.HasPrefix(cn, "this.") || strings.HasPrefix(cn, "this.db.") || strings.HasPrefix(cn, "this.cache.") {
				continue
			}
			takesBatch := len(c.Args) > 0 && norm(src(c.Args[0])) == "batch"
			reads := cn == "this.FirstIndex" || cn == "this.LastIndex" || cn == "this.seekEntry" || cn == "this.Snapshot" || cn == "this.firstIndex" || cn == "this.lastIndex"
			if !takesBatch && !reads {
				why = fn + " calls " + cn + " outside its batch"
			}
		}
	}
	cs, _ := bodyText("storage/wal/badger.go", "badgerWAL", "CreateSnapshot")
	if is, id := strings.Index(cs, "this.writeSnapshot(batch, snapshot)"), strings.Index(cs, "this.deleteEntriesUntilIndex(batch, snapshot.Metadata.Index)"); is < 0 || id < 0 || id < is {
		why = "CreateSnapshot: snapshot record and compaction are not one batch in that order"
	}
	if why != "" {
		known(name, typ, "false", why)
		return
	}
	known(name, typ, "true", "Save and CreateSnapshot: one write batch each, flushed once at the end")
}
