package main

import "strings"

func init() { extraExtractors = append(extraExtractors, factsWal) }

func factsWal() {
	save, fd := bodyText("storage/wal/badger.go", "badgerWAL", "Save")
	if fd == nil {
		unrec("wal_save_snapshot_first", "bool", "Save not found")
	} else {
		iw := strings.Index(save, "this.writeEntries(batch, entries)")
		ih := strings.Index(save, "this.writeHardState(batch, hardState)")
		is := strings.Index(save, "this.writeSnapshot(batch, snapshot)")
		id := strings.Index(save, "this.deleteEntriesFromIndex(batch, 0)")
		il := strings.Index(save, "this.cache.Store(cacheLastIndexKey, snapshot.Metadata.Index)")
		switch {
		case iw < 0 || ih < 0 || is < 0 || id < 0 || !strings.Contains(save, "return batch.Flush()"):
			unrec("wal_save_snapshot_first", "bool", "Save no longer has the four steps")
		case id < is && is < iw && iw < ih && il > is && il < iw:
			known("wal_save_snapshot_first", "bool", "true", "Save: delete old log; write snapshot + its entry; reset cached last index; entries; hard state")
		case iw < ih && ih < is && is < id && il < 0:
			known("wal_save_snapshot_first", "bool", "false", "Save: entries; hard state; snapshot; then delete the whole log (original order)")
		default:
			unrec("wal_save_snapshot_first", "bool", "Save steps in an unmodelled order")
		}
	}
	dg, fd2 := bodyText("storage/wal/badger.go", "badgerWAL", "DeleteGroup")
	if fd2 == nil {
		unrec("wal_delete_group_complete", "bool", "DeleteGroup not found")
	} else if !strings.Contains(dg, "this.reset(nil)") {
		unrec("wal_delete_group_complete", "bool", "DeleteGroup no longer resets the entries")
	} else {
		known("wal_delete_group_complete", "bool", b(strings.Contains(dg, "this.hardStateKey()") && strings.Contains(dg, "this.snapshotKey()") && strings.Count(dg, "Delete(") >= 2),
			"DeleteGroup removes entries, hard state and snapshot")
	}
	// key layout: group id (16) ++ big-endian index (8); "hs"/"ss" ++ group id
	ek, f3 := bodyText("storage/wal/badger.go", "badgerWAL", "entryKey")
	hk, f4 := bodyText("storage/wal/badger.go", "badgerWAL", "hardStateKey")
	sk, f5 := bodyText("storage/wal/badger.go", "badgerWAL", "snapshotKey")
	if f3 == nil || f4 == nil || f5 == nil {
		unrec("wal_key_layout", "bool", "key functions not found")
	} else if ek == "{ b := make([]byte, 24) copy(b[0:16], this.entryPrefix()) binary.BigEndian.PutUint64(b[16:24], idx) return b }" &&
		hk == `{ b := make([]byte, 18) copy(b[0:2], []byte("hs")) copy(b[2:18], this.groupId.Bytes()) return b }` &&
		sk == `{ b := make([]byte, 18) copy(b[0:2], []byte("ss")) copy(b[2:18], this.groupId.Bytes()) return b }` {
		known("wal_key_layout", "bool", "true", "entry key = group id ++ BE64(index); hard state / snapshot keys = \"hs\"/\"ss\" ++ group id")
	} else {
		unrec("wal_key_layout", "bool", "key layout changed")
	}
}
