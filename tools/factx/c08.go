package main

import (
	"fmt"
	"strings"
)

func init() { extraExtractors = append(extraExtractors, factsCodec) }

func factsCodec() {
	load, fd := bodyText("index/hnsw_persistence.go", "Hnsw", "Load")
	kv, fd2 := bodyText("index/metadata.go", "Metadata", "loadKV")
	if fd == nil || fd2 == nil {
		unrec("load_single_reads", "nat", "Load/loadKV not found")
		unrec("load_accepts_empty", "bool", "Load not found")
		unrec("load_resets_state", "bool", "Load not found")
		return
	}
	// number of bare r.Read( calls (each may return short)
	n := strings.Count(load, "r.Read(") + strings.Count(kv, "r.Read(")
	known("load_single_reads", "nat", fmt.Sprint(n), "bare r.Read calls in Hnsw.Load and Metadata.loadKV (everything else is binary.Read / io.ReadFull)")
	// empty: the first id read treats io.EOF as the empty index
	i := strings.Index(load, "uuidBuf := make([]byte, uuid.Size)")
	empty := false
	if i >= 0 {
		rest := load[i:]
		j := strings.Index(rest, "entrypointId, err := uuid.FromBytes(uuidBuf)")
		if j > 0 && strings.Contains(rest[:j], "if err == io.EOF {") && strings.Contains(rest[:j], "return nil }") {
			empty = true
		}
	}
	known("load_accepts_empty", "bool", b(empty), "immediate EOF on the entry-point id is the empty index")
	// reset: bytesSize and len zeroed before the vertices loop, shards replaced
	vi := strings.Index(load, "// Load vertices")
	if vi < 0 {
		vi = strings.Index(load, "for i, _ := range this.vertices")
	}
	ei := strings.Index(load, "entrypointId, err := uuid.FromBytes(uuidBuf)")
	reset := vi > 0 && ei > 0 && ei < vi && strings.Contains(load[ei:vi], "this.bytesSize = 0") && strings.Contains(load[ei:vi], "this.len = 0") &&
		strings.Contains(load, "this.vertices[i] = make(map[uuid.UUID]*hnswVertex, int(shardSize))")
	known("load_resets_state", "bool", b(reset), "len and data-bytes counter zeroed and every shard replaced before loading")
}
