package main

import (
	"fmt"
	"go/ast"
	"strings"
)

func init() { extraExtractors = append(extraExtractors, factsCodec) }

func factsCodec() {
	load, fd := bodyText("index/hnsw_persistence.go", "Hnsw", "Load")
	kv, fd2 := bodyText("index/metadata.go", "Metadata", "loadKV")
	if fd == nil || fd2 == nil {
		unrec("load_single_reads", "nat", "Load/loadKV not found")
		unrec("load_accepts_empty", "bool", "Load not found")
		unrec("load_resets_state", "bool", "Load not found")
		return
	}
	// number of bare r.Read( calls (each may return short)
	n := strings.Count(load, "r.Read(") + strings.Count(kv, "r.Read(")
	known("load_single_reads", "nat", fmt.Sprint(n), "bare r.Read calls in Hnsw.Load and Metadata.loadKV (everything else is binary.Read / io.ReadFull)")
	// empty: the first id read treats io.EOF as the empty index
	i := strings.Index(load, "uuidBuf := make([]byte, uuid.Size)")
	empty := false
	if i >= 0 {
		rest := load[i:]
		j := strings.Index(rest, "entrypointId, err := uuid.FromBytes(uuidBuf)")
		if j > 0 && strings.Contains(rest[:j], "if err == io.EOF {") && strings.Contains(rest[:j], "return nil }") {
			empty = true
		}
	}
	known("load_accepts_empty", "bool", b(empty), "immediate EOF on the entry-point id is the empty index")
	// reset: bytesSize and len zeroed before the vertices loop, shards replaced
	vi := strings.Index(load, "// Load vertices")
	if vi < 0 {
		vi = strings.Index(load, "for i, _ := range this.vertices")
	}
	ei := strings.Index(load, "entrypointId, err := uuid.FromBytes(uuidBuf)")
	reset := vi > 0 && ei > 0 && ei < vi && strings.Contains(load[ei:vi], "this.bytesSize = 0") && strings.Contains(load[ei:vi], "this.len = 0") &&
		strings.Contains(load, "this.vertices[i] = make(map[uuid.UUID]*hnswVertex, int(shardSize))")
	known("load_resets_state", "bool", b(reset), "len and data-bytes counter zeroed and every shard replaced before loading")
	// memory proportional to the input: the allocations of the load path are exactly these - fixed-size buffers, one
	// shard map sized by the shard's own vertex count, one vector of the index dimension per vertex, key / value buffers
	// of the 8- / 16-bit lengths just read, nothing sized by a product or by a count of things not yet seen
	var makes []string
	for _, fdx := range []*ast.FuncDecl{fd, fd2, findFunc("math/vector.go", "Vector", "Load"), findFunc("index/metadata.go", "Metadata", "load")} {
		if fdx == nil {
			makes = append(makes, "?missing")
			continue
		}
		for _, c := range calls(fdx.Body) {
			if callName(c) == "make" {
				makes = append(makes, norm(src(c)))
			}
		}
	}
	want := []string{"make([]byte, uuid.Size)", "make(map[uuid.UUID]*hnswVertex)", "make(map[uuid.UUID]*hnswVertex, int(shardSize))", "make(math.Vector, this.size)", "make(Metadata)",
		"make([]byte, keyLength)", "make([]byte, valLength)"}
	extra := []string{}
	for _, m := range makes {
		ok := false
		for _, w := range want {
			if m == w {
				ok = true
			}
		}
		if !ok {
			extra = append(extra, m)
		}
	}
	known("load_allocations_bounded", "bool", b(len(extra) == 0 && len(makes) >= len(want)-1), fmt.Sprintf("allocations on the load path: %s; unexpected: %s", strings.Join(makes, " | "), strings.Join(extra, " | ")))
}
