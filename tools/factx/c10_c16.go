package main

import (
	"go/ast"
	"regexp"
	"strings"
)

func init() { extraExtractors = append(extraExtractors, factsPlacement, factsRouting) }

var wsRe = regexp.MustCompile(`\s+`)

func norm(s string) string { return strings.TrimSpace(wsRe.ReplaceAllString(s, " ")) }

// ---------------------------------------------------------------- C16
func factsPlacement() {
	const name, typ = "placement_copies", "bool"
	fd := findFunc("storage/allocator.go", "Allocator", "getPartitionsNodeIds")
	if fd == nil {
		unrec(name, typ, "getPartitionsNodeIds not found")
		unrec("placement_shuffle_per_partition", "bool", "getPartitionsNodeIds not found")
		return
	}
	// the loop over partitions
	var loop *ast.ForStmt
	for _, s := range fd.Body.List {
		if f, ok := s.(*ast.ForStmt); ok {
			loop = f
		}
	}
	if loop == nil {
		unrec(name, typ, "no for loop")
		unrec("placement_shuffle_per_partition", "bool", "no for loop")
		return
	}
	shuffleInLoop := false
	for _, c := range calls(loop.Body) {
		if callName(c) == "rand.Shuffle" {
			shuffleInLoop = true
		}
	}
	known("placement_shuffle_per_partition", "bool", b(shuffleInLoop), "rand.Shuffle is called inside the per-partition loop")
	// Create writes the allocator's placement into the catalogue entry, partition by partition
	if ct, cfd := bodyText("storage/dataset_manager.go", "DatasetManager", "Create"); cfd == nil {
		unrec("create_uses_allocator_placement", "bool", "DatasetManager.Create not found")
	} else {
		known("create_uses_allocator_placement", "bool", b(strings.Contains(ct, "partitionsNodeIds := this.allocator.getPartitionsNodeIds(uint(dataset.GetPartitionCount()), uint(dataset.GetReplicationFactor()))") &&
			strings.Contains(ct, "for i := 0; i < int(dataset.GetPartitionCount()); i++ { dataset.Partitions[i] = &pb.Partition{ Id: uuid.NewV4().Bytes(), NodeIds: partitionsNodeIds[i], } }") &&
			strings.Count(ct, "NodeIds:") == 1 && strings.Count(ct, "partitionsNodeIds") == 2), "Create: one allocator placement per dataset, partition i gets partitionsNodeIds[i]")
	}
	var rhs ast.Expr
	hasCopy := false
	for _, s := range loop.Body.List {
		if as, ok := s.(*ast.AssignStmt); ok && len(as.Lhs) == 1 && norm(src(as.Lhs[0])) == "partitionsNodeIds[i]" {
			rhs = as.Rhs[0]
		}
		for _, c := range calls(s) {
			if callName(c) == "copy" && len(c.Args) == 2 && norm(src(c.Args[0])) == "partitionsNodeIds[i]" && strings.HasPrefix(norm(src(c.Args[1])), "nodeIds[") {
				hasCopy = true
			}
		}
	}
	switch r := rhs.(type) {
	case *ast.SliceExpr:
		known(name, typ, "false", "partitionsNodeIds[i] is a view of the shared nodeIds array")
	case *ast.CallExpr:
		switch callName(r) {
		case "make":
			if hasCopy {
				known(name, typ, "true", "partitionsNodeIds[i] = make + copy(…, nodeIds[:n])")
			} else {
				unrec(name, typ, "make without copy from nodeIds")
			}
		case "append":
			a0 := norm(src(r.Args[0]))
			if len(r.Args) >= 2 && (strings.HasSuffix(a0, "(nil)") || strings.HasSuffix(a0, "{}")) {
				known(name, typ, "true", "append onto a fresh slice")
			} else {
				unrec(name, typ, "append onto "+a0)
			}
		default:
			unrec(name, typ, "unexpected rhs "+norm(src(rhs)))
		}
	default:
		unrec(name, typ, "no assignment to partitionsNodeIds[i]")
	}
}

// ---------------------------------------------------------------- C10
func factsRouting() {
	// (1) the hash itself
	if fd := findFunc("utils/uuid.go", "", "UuidMod"); fd == nil {
		unrec("uuid_mod_shape", "string", "UuidMod not found")
	} else {
		body := norm(src(fd.Body))
		body = strings.ReplaceAll(body, ";", "")
		want := "{ res := ((binary.LittleEndian.Uint64(x[:8]) % mod) + (binary.LittleEndian.Uint64(x[8:]) % mod)) return res % mod }"
		if norm(body) == want {
			known("uuid_mod_shape", "string", `"le64(lo)%m+le64(hi)%m then %m"`, "utils/uuid.go UuidMod body matches the modelled expression")
		} else {
			unrec("uuid_mod_shape", "string", "UuidMod body changed: "+body)
		}
	}
	// (2) the owner function
	if fd := findFunc("storage/dataset.go", "Dataset", "getPartitionForId"); fd == nil {
		unrec("owner_fn_shape", "string", "getPartitionForId not found")
	} else {
		var ret string
		ast.Inspect(fd.Body, func(n ast.Node) bool {
			if r, ok := n.(*ast.ReturnStmt); ok && len(r.Results) == 1 {
				ret = norm(src(r.Results[0]))
			}
			return true
		})
		if ret == "this.partitions[utils.UuidMod(id, uint64(this.Meta().GetPartitionCount()))]" {
			known("owner_fn_shape", "string", `"partitions[UuidMod(id, partition_count)]"`, "storage/dataset.go getPartitionForId")
		} else {
			unrec("owner_fn_shape", "string", "getPartitionForId returns "+ret)
		}
	}
	// (2b) the positional partition slice follows the catalogue entry: position i holds meta.Partitions[i]
	if txt, fd := bodyText("storage/dataset.go", "", "newDataset"); fd == nil {
		unrec("partitions_in_catalogue_order", "bool", "newDataset not found")
	} else {
		known("partitions_in_catalogue_order", "bool", b(strings.Contains(txt, "partitions: make([]*partition, meta.GetPartitionCount())") &&
			strings.Contains(txt, "for i := 0; i < int(meta.GetPartitionCount()); i++ { pid, err := uuid.FromBytes(meta.Partitions[i].GetId())") &&
			strings.Contains(txt, "partition := newPartition(pid, meta.Partitions[i], d, raftWalDB, raftTransport, datasetManager) d.partitions[i] = partition d.partitionsMap[pid] = partition }") &&
			strings.Count(txt, "d.partitions[") == 1 && !strings.Contains(txt, "append(")),
			"newDataset: d.partitions[i] is the partition of meta.Partitions[i], filled by index in one loop")
	}
	ok := true
	why := ""
	for _, fn := range []string{"Insert", "Update", "Remove"} {
		fd := findFunc("storage/dataset.go", "Dataset", fn)
		if fd == nil {
			ok, why = false, fn+" not found"
			break
		}
		n := 0
		local := ""
		for _, c := range calls(fd.Body) {
			if callName(c) == "this.getPartitionForId" {
				n++
				if len(c.Args) != 1 || norm(src(c.Args[0])) != "id" {
					ok, why = false, fn+": getPartitionForId not applied to id"
				}
			}
			cn := callName(c)
			if cn == "partition."+strings.ToLower(fn) || cn == "this.getPartitionForId(id)."+strings.ToLower(fn) {
				local = cn
			}
		}
		if n == 0 {
			ok, why = false, fn+": no getPartitionForId call"
		}
		if local == "" {
			ok, why = false, fn+": local write does not go to the routed partition"
		}
		// `partition` must be assigned from getPartitionForId(id) only
		ast.Inspect(fd.Body, func(x ast.Node) bool {
			if as, isAs := x.(*ast.AssignStmt); isAs && len(as.Lhs) == 1 && norm(src(as.Lhs[0])) == "partition" {
				if norm(src(as.Rhs[0])) != "this.getPartitionForId(id)" {
					ok, why = false, fn+": partition := "+norm(src(as.Rhs[0]))
				}
			}
			return true
		})
	}
	if fd := findFunc("storage/dataset.go", "Dataset", "groupBatchItemsByPartition"); fd == nil {
		ok, why = false, "groupBatchItemsByPartition not found"
	} else {
		n := 0
		for _, c := range calls(fd.Body) {
			if callName(c) == "this.getPartitionForId" {
				n++
				arg := norm(src(c.Args[0]))
				if arg != "uuid.Must(uuid.FromBytes(item.GetId()))" && arg != "id" {
					ok, why = false, "batch grouping routes by "+arg
				}
				if arg == "id" {
					// id must come from uuid.FromBytes(item.GetId())
					found := false
					ast.Inspect(fd.Body, func(x ast.Node) bool {
						if as, isAs := x.(*ast.AssignStmt); isAs && len(as.Lhs) >= 1 && norm(src(as.Lhs[0])) == "id" &&
							strings.Contains(norm(src(as.Rhs[0])), "uuid.FromBytes(item.GetId())") {
							found = true
						}
						return true
					})
					if !found {
						ok, why = false, "batch grouping: id not derived from item.GetId()"
					}
				}
			}
		}
		if n != 1 {
			ok, why = false, "groupBatchItemsByPartition: expected one getPartitionForId call"
		}
	}
	for _, fn := range []string{"BatchInsert", "BatchUpdate", "BatchRemove"} {
		fd := findFunc("storage/dataset.go", "Dataset", fn)
		if fd == nil {
			ok, why = false, fn+" not found"
			break
		}
		n := 0
		for _, c := range calls(fd.Body) {
			if callName(c) == "this.partitionsBatchRequest" {
				n++
			}
		}
		if n != 1 {
			ok, why = false, fn+" does not use partitionsBatchRequest"
		}
	}
	if fd := findFunc("storage/dataset.go", "Dataset", "partitionsBatchRequest"); fd != nil {
		n := 0
		for _, c := range calls(fd.Body) {
			if callName(c) == "this.groupBatchItemsByPartition" {
				n++
			}
		}
		if n != 1 {
			ok, why = false, "partitionsBatchRequest does not group by partition"
		}
	} else {
		ok, why = false, "partitionsBatchRequest not found"
	}
	if gt, gfd := bodyText("storage/dataset.go", "Dataset", "groupBatchItemsByPartition"); gfd == nil {
		unrec("batch_grouping_shape", "bool", "groupBatchItemsByPartition not found")
	} else {
		known("batch_grouping_shape", "bool", b(gt == "{ result := make(map[*partition][]*pb.BatchItem) for _, item := range items { partition := this.getPartitionForId(uuid.Must(uuid.FromBytes(item.GetId()))) if _, exists := result[partition]; !exists { result[partition] = make([]*pb.BatchItem, 0) } result[partition] = append(result[partition], item) } return result }"),
			"groupBatchItemsByPartition appends every item to the group of getPartitionForId(item id)")
	}
	if ok {
		known("write_paths_via_owner_fn", "bool", "true", "Insert/Update/Remove and the three batch paths route through getPartitionForId(item id)")
	} else {
		unrec("write_paths_via_owner_fn", "bool", why)
	}
}
