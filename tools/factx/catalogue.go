package main

import (
	"sort"
	"strings"
)

func init() { extraExtractors = append(extraExtractors, factsCatalogue) }

func factsCatalogue() {
	// ---- server.setup: the order in which the zero group, its consumers and its start are wired
	setup, fd := bodyText("server.go", "Server", "setup")
	if fd == nil {
		unrec("setup_order", "list string", "Server.setup not found")
	} else {
		marks := map[string]string{
			"zero-new":           "this.zeroGroup, err = raft.NewRaftGroup(uuid.Nil,",
			"shared-new":         "sharedGroup, err := raft.NewSharedGroup(this.zeroGroup)",
			"nodes-manager":      "this.nodesManager = raft.NewNodesManager(this.clusterConn, this.zeroGroup)",
			"catalogue-register": "this.datasetManager, err = storage.NewDatasetManager(sharedGroup.Get(\"datasets\"),",
			"zero-start":         "this.zeroGroup.Start()",
			"listen":             "this.listener, err = net.Listen(",
		}
		type pos struct {
			name string
			at   int
		}
		var ps []pos
		ok := true
		for name, m := range marks {
			k := strings.Index(setup, m)
			if k < 0 || strings.Count(setup, m) != 1 {
				ok = false
			}
			ps = append(ps, pos{name, k})
		}
		if !ok || strings.Count(setup, ".Start()") != 1 {
			unrec("setup_order", "list string", "a wiring step of Server.setup is missing or duplicated")
		} else {
			sort.Slice(ps, func(a, b int) bool { return ps[a].at < ps[b].at })
			names := make([]string, len(ps))
			for k, p := range ps {
				names[k] = `"` + p.name + `"`
			}
			known("setup_order", "list string", "["+strings.Join(names, "; ")+"]", "order of the wiring steps in Server.setup")
		}
	}
	// ---- NewDatasetManager registers all three functions before it returns
	ndm, f2 := bodyText("storage/dataset_manager.go", "", "NewDatasetManager")
	if f2 == nil {
		unrec("catalogue_registers_all", "bool", "NewDatasetManager not found")
	} else {
		known("catalogue_registers_all", "bool", b(strings.Contains(ndm, "raft.RegisterProcessFn(dm.process)") &&
			strings.Contains(ndm, "raft.RegisterProcessSnapshotFn(dm.processSnapshot)") && strings.Contains(ndm, "raft.RegisterSnapshotFn(dm.snapshot)")),
			"NewDatasetManager registers process, processSnapshot and snapshot with its group")
	}
	// ---- the shared group forwards entries and snapshots to the named consumer only if it exists
	sp, f3 := bodyText("storage/raft/shared_group.go", "sharedGroup", "process")
	if f3 == nil {
		unrec("shared_group_drops_unregistered", "bool", "sharedGroup.process not found")
	} else {
		known("shared_group_drops_unregistered", "bool", b(strings.Contains(sp, "if proxy, exists := this.proxies[proposal.GetProxyName()]; exists { return proxy.processFn(proposal.GetData()) } return nil")),
			"an entry for a consumer that has not registered yet is dropped silently (why the start order matters)")
	}
	// ---- the zero group's snapshot carries the snapshot of every consumer (an empty one included: restoring it is what
	// empties a lagging member's catalogue) and a restore hands every part to its consumer
	ss, f3s := bodyText("storage/raft/shared_group.go", "sharedGroup", "snapshot")
	sr, f3r := bodyText("storage/raft/shared_group.go", "sharedGroup", "processSnapshot")
	if f3s == nil || f3r == nil {
		unrec("shared_snapshot_carries_every_consumer", "bool", "sharedGroup.snapshot / processSnapshot not found")
	} else {
		known("shared_snapshot_carries_every_consumer", "bool", b(ss == "{ var err error proxySnapshots := make(map[string][]byte) for _, proxy := range this.proxies { if proxy.snapshotFn != nil { proxySnapshots[proxy.name], err = proxy.snapshotFn() if err != nil { return nil, err } } } return proto.Marshal(&pb.SharedGroupSnapshot{ProxySnapshots: proxySnapshots}) }" &&
			sr == "{ var snapshot pb.SharedGroupSnapshot if err := proto.Unmarshal(data, &snapshot); err != nil { return err } for proxyName, proxySnapshot := range snapshot.GetProxySnapshots() { proxy := this.proxies[proxyName] if err := proxy.processSnapshotFn(proxySnapshot); err != nil { return err } } return nil }"),
			"sharedGroup.snapshot stores the snapshot of every consumer that registered a snapshot function; processSnapshot hands every stored part to its consumer")
	}
	// ---- processSnapshot replaces the catalogue
	ps, f4 := bodyText("storage/dataset_manager.go", "DatasetManager", "processSnapshot")
	if f4 == nil {
		unrec("restore_replaces", "bool", "processSnapshot not found")
	} else {
		removes := strings.Contains(ps, "for id, dataset := range this.datasets { if _, exists := inSnapshot[id]; !exists {") &&
			strings.Contains(ps, "delete(this.datasets, id)")
		syncs := strings.Contains(ps, "if existing, exists := this.datasets[id]; exists { existing.syncPartitionNodes(dataset) continue }")
		creates := strings.Contains(ps, "this.datasets[id], err = newDataset(id, *dataset,")
		if !creates {
			unrec("restore_replaces", "bool", "processSnapshot no longer creates the datasets of the snapshot in the recognised way")
		} else {
			known("restore_replaces", "bool", b(removes && syncs), "restoring a snapshot removes datasets it does not contain and re-synchronises the replica sets of those it does")
		}
	}
	sy, f5 := bodyText("storage/dataset.go", "Dataset", "syncPartitionNodes")
	if f5 == nil {
		known("sync_partition_nodes_shape", "bool", "false", "Dataset.syncPartitionNodes not found")
	} else {
		known("sync_partition_nodes_shape", "bool", b(strings.Contains(sy, "if _, keep := wanted[nodeId]; !keep { partition.removeNode(nodeId) }") &&
			strings.Contains(sy, "if !partition.isOnNode(nodeId) { partition.addNode(nodeId) }")), "syncPartitionNodes removes unwanted and adds missing replicas")
	}
	// ---- apply functions
	cr, f6 := bodyText("storage/dataset_manager.go", "DatasetManager", "createDataset")
	dl, f7 := bodyText("storage/dataset_manager.go", "DatasetManager", "deleteDataset")
	pr, f8 := bodyText("storage/dataset_manager.go", "DatasetManager", "process")
	if f6 == nil || f7 == nil || f8 == nil {
		unrec("catalogue_apply_shape", "bool", "createDataset / deleteDataset / process not found")
	} else {
		known("catalogue_apply_shape", "bool", b(
			strings.Contains(cr, "if _, exists := this.datasets[id]; exists { this.notificator.Notify(notificationId, DatasetAlreadyExistsErr, false) return nil }") &&
				strings.Contains(cr, "this.datasets[id], err = newDataset(id, dataset,") &&
				strings.Contains(dl, "if !exists { this.notificator.Notify(notificationId, DatasetNotFoundErr, false) return nil }") &&
				strings.Contains(dl, "delete(this.datasets, id)") &&
				strings.Contains(pr, "case pb.DatasetManagerChangeType_DatasetManagerCreateDataset: return this.createDataset(notificationId, change.Data)") &&
				strings.Contains(pr, "case pb.DatasetManagerChangeType_DatasetManagerDeleteDataset: return this.deleteDataset(notificationId, change.Data)") &&
				strings.Contains(pr, "case pb.DatasetManagerChangeType_DatasetManagerUpdatePartitionNodes: return this.updatePartitionNodes(notificationId, change.Data)")),
			"create rejects an existing id, delete removes the id, process dispatches on the three change kinds")
	}
}
