package main

// C07: index/config.go newHnswConfig - the defaults, the caller's options applied first, the derived values after
// (the shape of Hnsw/Config.v new_config with derive_last = true).

func init() { extraExtractors = append(extraExtractors, factsConfig) }

func factsConfig() {
	const name, typ = "config_derives_after_options", "bool"
	txt, fd := bodyText("index/config.go", "", "newHnswConfig")
	if fd == nil {
		unrec(name, typ, "newHnswConfig not found")
		return
	}
	const want = "{ config := &hnswConfig{ searchAlgorithm: HnswSearchSimple, levelMultiplier: -1, ef: 20, efConstruction: 200, m: 16, mMax: -1, mMax0: -1, heuristicExtendCandidates: false, heuristicKeepPruned: true, } for _, option := range options { option.apply(config) } if config.levelMultiplier == -1 { config.levelMultiplier = 1.0 / math.Log(float32(config.m)) } if config.mMax == -1 { config.mMax = config.m } if config.mMax0 == -1 { config.mMax0 = 2 * config.m } return config }"
	known(name, typ, b(txt == want), "newHnswConfig: defaults (M 16, ef 20, efConstruction 200, caps to derive), options applied, then mMax = m, mMax0 = 2m, levelMultiplier = 1/ln m")
}
