package main

import "strings"

func init() { extraExtractors = append(extraExtractors, factsControl) }

func factsControl() {
	w, f1 := bodyText("storage/allocator.go", "Allocator", "watch")
	u, f2 := bodyText("storage/allocator.go", "Allocator", "unwatch")
	fw, f3 := bodyText("storage/allocator.go", "Allocator", "forwardUpdates")
	run, f4 := bodyText("storage/allocator.go", "Allocator", "run")
	if f1 == nil || f2 == nil || f4 == nil {
		unrec("updates_queued", "bool", "Allocator.watch / unwatch / run not found")
		unrec("watch_holds_lock", "bool", "Allocator.watch / unwatch not found")
	} else {
		sends := strings.Contains(w, "this.updatesC <- &watchPartitionUpdate{") && strings.Contains(u, "this.updatesC <- &unwatchPartitionUpdate{")
		if !sends {
			unrec("updates_queued", "bool", "watch / unwatch no longer send on updatesC")
			unrec("watch_holds_lock", "bool", "watch / unwatch no longer send on updatesC")
		} else {
			queued := f3 != nil &&
				strings.Contains(fw, "select { case update, ok := <-this.updatesC: if !ok { return } queue = append(queue, update) case this.updatesQueue <- queue[0]: queue = queue[1:] case <-this.ctx.Done(): return }") &&
				strings.Contains(fw, "if len(queue) == 0 { update, ok := <-this.updatesC") &&
				strings.Contains(run, "case update := <-this.updatesQueue:") && !strings.Contains(run, "<-this.updatesC")
			if queued {
				na, _ := bodyText("storage/allocator.go", "", "NewAllocator")
				queued = strings.Contains(na, "go a.forwardUpdates()") && strings.Contains(na, "updatesQueue: make(chan interface{}),")
			}
			known("updates_queued", "bool", b(queued), "watch / unwatch hand their update to a forwarder that always receives; the loop reads the forwarder's output")
			known("watch_holds_lock", "bool", b(strings.Contains(w, "partitionsMu") || strings.Contains(u, "partitionsMu")), "watch / unwatch take partitionsMu around the send")
		}
	}
	nc, f5 := bodyText("cluster/conn.go", "Conn", "NodeChangesNotifications")
	fn, f6 := bodyText("cluster/conn.go", "", "forwardNodesChanges")
	if f5 == nil {
		unrec("notifications_queued", "bool", "Conn.NodeChangesNotifications not found")
	} else {
		known("notifications_queued", "bool", b(f6 != nil &&
			strings.Contains(nc, "in := make(chan *nodesChange)") && strings.Contains(nc, "this.notifications = append(this.notifications, in)") &&
			strings.Contains(nc, "go forwardNodesChanges(in, out) return out") &&
			strings.Contains(fn, "select { case n, ok := <-in: if !ok { return } queue = append(queue, n) case out <- queue[0]: queue = queue[1:] }") &&
			strings.Contains(fn, "if len(queue) == 0 { n, ok := <-in")),
			"subscribers of membership notifications get the output of a forwarder that always receives")
	}
	an, f7 := bodyText("storage/allocator.go", "Allocator", "addNodeToPartitions")
	rn, f8 := bodyText("storage/allocator.go", "Allocator", "removeNodeFromPartitions")
	wp, f9 := bodyText("storage/allocator.go", "Allocator", "watchedPartitions")
	if f7 == nil || f8 == nil {
		unrec("handler_copies_partitions", "bool", "node change handlers not found")
	} else {
		known("handler_copies_partitions", "bool", b(f9 != nil && !strings.Contains(an, "partitionsMu") && !strings.Contains(rn, "partitionsMu") &&
			strings.Contains(an, "range this.watchedPartitions()") && strings.Contains(rn, "range this.watchedPartitions()") &&
			strings.Contains(wp, "this.partitionsMu.RLock() defer this.partitionsMu.RUnlock()") && strings.Contains(wp, "partitions = append(partitions, partition)")),
			"the node change handlers iterate a copy of the watched set and hold no allocator lock while proposing")
	}
	// the wait for the zero group holds no lock that catalogue entries take when they are applied
	pw, f13 := bodyText("storage/dataset_manager.go", "DatasetManager", "proposePartitionNodesChangeAndWaitForCommit")
	apn, f14 := bodyText("storage/dataset_manager.go", "DatasetManager", "addPartitionNode")
	rpn, f15 := bodyText("storage/dataset_manager.go", "DatasetManager", "removePartitionNode")
	if f13 == nil || f14 == nil || f15 == nil {
		unrec("proposal_wait_lock_free", "bool", "proposePartitionNodesChangeAndWaitForCommit / addPartitionNode / removePartitionNode not found")
	} else {
		locky := func(t string) bool {
			return strings.Contains(t, "Mu.") || strings.Contains(t, ".Lock()") || strings.Contains(t, ".RLock()")
		}
		known("proposal_wait_lock_free", "bool", b(!locky(pw) && !locky(apn) && !locky(rpn) && strings.Contains(pw, "case err := <-notifC:") && strings.Contains(pw, "this.raft.Propose(ctx, proposalData)")),
			"proposing a replica change and waiting for it to be applied takes no lock")
	}
	pa, f10 := bodyText("storage/partition.go", "partition", "proposeAddNode")
	pr, f11 := bodyText("storage/partition.go", "partition", "proposeRemoveNode")
	if f10 == nil || f11 == nil {
		unrec("proposal_checks_group", "bool", "proposeAddNode / proposeRemoveNode not found")
	} else {
		known("proposal_checks_group", "bool", b(strings.Contains(pa, "group := this.loadedRaft() if group == nil { return RaftNotLoadedOnNodeErr }") &&
			strings.Contains(pr, "group := this.loadedRaft() if group == nil { return RaftNotLoadedOnNodeErr }")),
			"proposing a replica change for a partition whose group is not loaded is an error, not a nil dereference")
	}
	// the set of watched partitions is maintained by the loop (handlers see a partition only after its watch update was handled)
	if f4 != nil {
		known("loop_owns_watched_set", "bool", b(strings.Contains(run, "if this.addWatched(_partition) && this.isPartitionAssignedToNode(_partition) {") &&
			strings.Contains(run, "_partition := this.removeWatched(update.(*unwatchPartitionUpdate).id)")),
			"the allocator loop adds / removes watched partitions when it handles the update")
	}
}
