module factx

go 1.14
