package main

// C18: the lock order of the membership book (cluster/conn.go).  For every function the locks it acquires (directly or
// through calls inside the file) while it holds another give the relation "held -> acquired"; the fact says that this
// relation has no cycle (and no lock is re-acquired while held), i.e. the locks can be ranked so that every goroutine
// acquires them in increasing rank - the hypothesis of Proto/LockOrderProofs.v.

import (
	"fmt"
	"go/ast"
	"sort"
	"strings"
)

func init() { extraExtractors = append(extraExtractors, factsLockOrder) }

// localCallee: the function of this file a call refers to - a plain call or a method call on the receiver `this`
// (calls on other values, e.g. a grpc connection's Close, are not calls into this file)
func localCallee(c *ast.CallExpr) string {
	switch f := c.Fun.(type) {
	case *ast.Ident:
		return f.Name
	case *ast.SelectorExpr:
		if x, ok := f.X.(*ast.Ident); ok && x.Name == "this" {
			return f.Sel.Name
		}
	}
	return ""
}

func lockNameOf(c *ast.CallExpr) string {
	if s, ok := c.Fun.(*ast.SelectorExpr); ok {
		return norm(src(s.X))
	}
	return ""
}

func factsLockOrder() {
	const name, typ = "conn_lock_order_acyclic", "bool"
	f := parse("cluster/conn.go")
	if f == nil {
		unrec(name, typ, "cluster/conn.go not found")
		return
	}
	decls := map[string]*ast.FuncDecl{}
	for _, d := range f.Decls {
		if fd, ok := d.(*ast.FuncDecl); ok && fd.Body != nil {
			decls[fd.Name.Name] = fd
		}
	}
	if decls["RemoveNode"] == nil || decls["Dial"] == nil || decls["AddNode"] == nil {
		unrec(name, typ, "Conn.AddNode / RemoveNode / Dial not found")
		return
	}
	// locks a function may acquire, directly or through calls within the file (go statements start another goroutine)
	direct := map[string]map[string]bool{}
	callees := map[string]map[string]bool{}
	var visit func(fn string, n ast.Node, f func(c *ast.CallExpr))
	visit = func(fn string, n ast.Node, f func(c *ast.CallExpr)) {
		ast.Inspect(n, func(x ast.Node) bool {
			switch y := x.(type) {
			case *ast.GoStmt:
				return false
			case *ast.FuncLit:
				return false
			case *ast.CallExpr:
				f(y)
			}
			return true
		})
	}
	for fn, fd := range decls {
		direct[fn], callees[fn] = map[string]bool{}, map[string]bool{}
		visit(fn, fd.Body, func(c *ast.CallExpr) {
			if isAcquire(c) {
				direct[fn][lockNameOf(c)] = true
			} else if cn := localCallee(c); cn != "" && decls[cn] != nil {
				callees[fn][cn] = true
			}
		})
	}
	acq := map[string]map[string]bool{}
	for fn := range decls {
		acq[fn] = map[string]bool{}
		for l := range direct[fn] {
			acq[fn][l] = true
		}
	}
	for changed := true; changed; {
		changed = false
		for fn := range decls {
			for g := range callees[fn] {
				for l := range acq[g] {
					if !acq[fn][l] {
						acq[fn][l] = true
						changed = true
					}
				}
			}
		}
	}
	// edges held -> acquired, walking each body in source order
	edges := map[string]map[string]bool{}
	addEdge := func(a, b string) {
		if edges[a] == nil {
			edges[a] = map[string]bool{}
		}
		edges[a][b] = true
	}
	for fn, fd := range decls {
		var held []string
		visit(fn, fd.Body, func(c *ast.CallExpr) {
			switch {
			case isAcquire(c):
				l := lockNameOf(c)
				for _, h := range held {
					addEdge(h, l)
				}
				held = append(held, l)
			case isRelease(c):
				l := lockNameOf(c)
				// a deferred release keeps the lock to the end of the function; an explicit one ends the region
				deferred := false
				ast.Inspect(fd.Body, func(x ast.Node) bool {
					if d, ok := x.(*ast.DeferStmt); ok && d.Call == c {
						deferred = true
					}
					return true
				})
				if !deferred {
					for i := len(held) - 1; i >= 0; i-- {
						if held[i] == l {
							held = append(held[:i], held[i+1:]...)
							break
						}
					}
				}
			default:
				if cn := localCallee(c); cn != "" && decls[cn] != nil {
					for l := range acq[cn] {
						for _, h := range held {
							addEdge(h, l)
						}
					}
				}
			}
		})
	}
	// a deferred release that textually precedes its acquisition ("defer mu.Unlock(); mu.Lock()") is handled above: the
	// release is skipped, the acquisition pushes.  Cycle search (self-edges included):
	var names []string
	for a := range edges {
		names = append(names, a)
	}
	sort.Strings(names)
	var list []string
	for _, a := range names {
		var bs []string
		for b := range edges[a] {
			bs = append(bs, b)
		}
		sort.Strings(bs)
		for _, b := range bs {
			list = append(list, strings.TrimPrefix(a, "this.")+"->"+strings.TrimPrefix(b, "this."))
		}
	}
	state := map[string]int{}
	cyclic := false
	var dfs func(a string)
	dfs = func(a string) {
		state[a] = 1
		for b := range edges[a] {
			if state[b] == 1 {
				cyclic = true
			} else if state[b] == 0 {
				dfs(b)
			}
		}
		state[a] = 2
	}
	for _, a := range names {
		if state[a] == 0 {
			dfs(a)
		}
	}
	facts = append(facts, fact{name, typ, "Known (" + b(!cyclic && len(list) > 0) + ")",
		fmt.Sprintf("cluster/conn.go, held -> acquired: %s; %s", strings.Join(list, ", "), map[bool]string{true: "CYCLE", false: "no cycle"}[cyclic])})
}

// C18: the raft transport's group table.  Every function of storage/raft/transport.go that takes groupsMu does nothing
// under it but read or write the table: no call other than the lock operations themselves and builtins, no channel
// operation, no select - so no message delivery (raft.Step can wait for a leader), dial or log deletion ever happens
// while the lock is held, and loading / unloading a group never waits for more than a table access.
func init() { extraExtractors = append(extraExtractors, factsTransportLock) }

func factsTransportLock() {
	const name, typ = "transport_lock_only_around_table", "bool"
	f := parse("storage/raft/transport.go")
	if f == nil {
		unrec(name, typ, "storage/raft/transport.go not found")
		return
	}
	builtins := map[string]bool{"delete": true, "len": true, "make": true, "append": true}
	n := 0
	why := ""
	for _, d := range f.Decls {
		fd, ok := d.(*ast.FuncDecl)
		if !ok || fd.Body == nil || !(strings.Contains(src(fd.Body), "groupsMu.Lock()") || strings.Contains(src(fd.Body), "groupsMu.RLock()")) {
			continue
		}
		n++
		ast.Inspect(fd.Body, func(x ast.Node) bool {
			switch y := x.(type) {
			case *ast.CallExpr:
				cn := norm(src(y.Fun))
				if strings.HasPrefix(cn, "this.groupsMu.") || builtins[cn] {
					return true
				}
				why = fd.Name.Name + " calls " + cn + " in a function that takes groupsMu"
			case *ast.SendStmt, *ast.SelectStmt, *ast.GoStmt:
				why = fd.Name.Name + " has a channel operation / goroutine in a function that takes groupsMu"
			case *ast.UnaryExpr:
				if y.Op.String() == "<-" {
					why = fd.Name.Name + " receives from a channel in a function that takes groupsMu"
				}
			}
			return true
		})
	}
	if n == 0 {
		unrec(name, typ, "no function takes groupsMu")
		return
	}
	if why != "" {
		known(name, typ, "false", why)
		return
	}
	known(name, typ, "true", fmt.Sprintf("%d functions take groupsMu; each only reads or writes the group table under it", n))
}
