package main

// C13: the lock discipline of package index.  A goroutine holds at most one lock at a time: between an acquisition
// (X.Lock() / X.RLock()) and its release — the matching X.Unlock()/X.RUnlock() statement of the same block, or the end
// of the function when the release is deferred — no statement acquires a lock, directly or by calling a function of
// the package that (transitively) acquires one; and control does not leave the region other than through the release.

import (
	"fmt"
	"go/ast"
	"sort"
	"strings"
)

func init() { extraExtractors = append(extraExtractors, factsLocks) }

var lockFiles = []string{"index/hnsw.go", "index/hnsw_vertex.go", "index/hnsw_persistence.go", "index/metadata.go", "index/search_result.go", "index/config.go"}

func isAcquire(c *ast.CallExpr) bool {
	s, ok := c.Fun.(*ast.SelectorExpr)
	return ok && len(c.Args) == 0 && (s.Sel.Name == "Lock" || s.Sel.Name == "RLock")
}
func isRelease(c *ast.CallExpr) bool {
	s, ok := c.Fun.(*ast.SelectorExpr)
	return ok && len(c.Args) == 0 && (s.Sel.Name == "Unlock" || s.Sel.Name == "RUnlock")
}

// calledName: the function or method name a call refers to (name-based: receivers are not resolved, which can only
// make the analysis stricter)
func calledName(c *ast.CallExpr) string {
	switch f := c.Fun.(type) {
	case *ast.Ident:
		return f.Name
	case *ast.SelectorExpr:
		return f.Sel.Name
	}
	return ""
}

func factsLocks() {
	const name, typ = "index_locks_not_nested", "bool"
	decls := map[string][]*ast.FuncDecl{}
	found := false
	for _, rel := range lockFiles {
		f := parse(rel)
		if f == nil {
			continue
		}
		found = true
		for _, d := range f.Decls {
			if fd, ok := d.(*ast.FuncDecl); ok && fd.Body != nil {
				decls[fd.Name.Name] = append(decls[fd.Name.Name], fd)
			}
		}
	}
	if !found || len(decls["storeVertex"]) == 0 || len(decls["addEdge"]) == 0 {
		unrec(name, typ, "package index not found / storeVertex, addEdge missing")
		return
	}
	// functions that acquire a lock, directly or through calls inside the package
	lockers := map[string]bool{}
	for n, fds := range decls {
		for _, fd := range fds {
			for _, c := range calls(fd.Body) {
				if isAcquire(c) {
					lockers[n] = true
				}
			}
		}
	}
	direct := len(lockers)
	for changed := true; changed; {
		changed = false
		for n, fds := range decls {
			if lockers[n] {
				continue
			}
			for _, fd := range fds {
				for _, c := range calls(fd.Body) {
					if cn := calledName(c); cn != "" && lockers[cn] && len(decls[cn]) > 0 {
						lockers[n] = true
						changed = true
					}
				}
			}
		}
	}
	var problems []string
	regions := 0
	bad := func(fd *ast.FuncDecl, n ast.Node, why string) {
		problems = append(problems, fmt.Sprintf("%s:%d %s", fd.Name.Name, fset.Position(n.Pos()).Line, why))
	}
	// acquiring calls inside an expression or statement (other than the acquisition statement itself)
	inner := func(fd *ast.FuncDecl, n ast.Node) {
		for _, c := range calls(n) {
			if isAcquire(c) {
				bad(fd, c, "acquires a lock while one is held")
			} else if cn := calledName(c); cn != "" && lockers[cn] && len(decls[cn]) > 0 {
				bad(fd, c, "calls "+cn+" (which takes a lock) while a lock is held")
			}
		}
	}
	var walk func(fd *ast.FuncDecl, list []ast.Stmt, held bool, deferred bool, loopDepth, heldDepth int) bool
	// returns whether a lock is held at the end of the list
	walk = func(fd *ast.FuncDecl, list []ast.Stmt, held bool, deferred bool, loopDepth, heldDepth int) bool {
		for _, st := range list {
			switch s := st.(type) {
			case *ast.ExprStmt:
				if c, ok := s.X.(*ast.CallExpr); ok && isAcquire(c) {
					if held {
						bad(fd, s, "acquires a lock while one is held")
					}
					held, heldDepth = true, loopDepth
					regions++
					continue
				}
				if c, ok := s.X.(*ast.CallExpr); ok && isRelease(c) {
					if !held {
						bad(fd, s, "releases a lock that is not held here")
					}
					held = false
					continue
				}
				if held {
					inner(fd, s)
				}
			case *ast.DeferStmt:
				if isRelease(s.Call) {
					deferred = true
					continue
				}
				if held {
					inner(fd, s)
				}
			case *ast.ReturnStmt:
				if held && !deferred {
					bad(fd, s, "returns with a lock held and no deferred release")
				}
				if held {
					inner(fd, s)
				}
			case *ast.BranchStmt:
				if held && !deferred && loopDepth <= heldDepth && (s.Tok.String() == "break" || s.Tok.String() == "continue" || s.Tok.String() == "goto") {
					bad(fd, s, "leaves the loop iteration with a lock held")
				}
			case *ast.BlockStmt:
				held = walk(fd, s.List, held, deferred, loopDepth, heldDepth)
			case *ast.IfStmt:
				if held {
					if s.Init != nil {
						inner(fd, s.Init)
					}
					inner(fd, s.Cond)
				}
				h1 := walk(fd, s.Body.List, held, deferred, loopDepth, heldDepth)
				h2 := held
				if s.Else != nil {
					h2 = walk(fd, []ast.Stmt{s.Else}, held, deferred, loopDepth, heldDepth)
				}
				if h1 != h2 {
					bad(fd, s, "the branches of an if leave different lock states")
				}
				held = h1
			case *ast.ForStmt:
				if held {
					for _, x := range []ast.Node{s.Init, s.Cond, s.Post} {
						if x != nil && !isNilNode(x) {
							inner(fd, x)
						}
					}
				}
				if h := walk(fd, s.Body.List, held, deferred, loopDepth+1, heldDepth); h != held {
					bad(fd, s, "a loop body changes the lock state")
				}
			case *ast.RangeStmt:
				if held {
					inner(fd, s.X)
				}
				if h := walk(fd, s.Body.List, held, deferred, loopDepth+1, heldDepth); h != held {
					bad(fd, s, "a loop body changes the lock state")
				}
			case *ast.SwitchStmt, *ast.TypeSwitchStmt, *ast.SelectStmt:
				var body *ast.BlockStmt
				switch w := s.(type) {
				case *ast.SwitchStmt:
					body = w.Body
					if held && w.Tag != nil {
						inner(fd, w.Tag)
					}
				case *ast.TypeSwitchStmt:
					body = w.Body
				case *ast.SelectStmt:
					body = w.Body
					if held {
						bad(fd, s, "select while a lock is held")
					}
				}
				for _, cl := range body.List {
					var cb []ast.Stmt
					switch c := cl.(type) {
					case *ast.CaseClause:
						cb = c.Body
					case *ast.CommClause:
						cb = c.Body
					}
					// a break inside a switch leaves the switch, not a loop
					if h := walk(fd, cb, held, deferred, loopDepth+1, heldDepth); h != held {
						bad(fd, cl, "a case changes the lock state")
					}
				}
			case *ast.GoStmt:
				if held {
					bad(fd, s, "starts a goroutine while a lock is held")
				}
			default:
				if held {
					inner(fd, st)
				}
			}
		}
		return held
	}
	names := make([]string, 0, len(decls))
	for n := range decls {
		names = append(names, n)
	}
	sort.Strings(names)
	for _, n := range names {
		for _, fd := range decls[n] {
			hasLock := false
			for _, c := range calls(fd.Body) {
				if isAcquire(c) {
					hasLock = true
				}
			}
			if !hasLock {
				continue
			}
			// function literals inside a locking function are not analysed: refuse them
			lit := false
			ast.Inspect(fd.Body, func(x ast.Node) bool {
				if _, ok := x.(*ast.FuncLit); ok {
					lit = true
				}
				return true
			})
			if lit {
				bad(fd, fd, "function literal inside a function that takes locks")
			}
			if end := walk(fd, fd.Body.List, false, false, 0, 0); end {
				// held at the end: fine only with a deferred release
				deferredRelease := false
				for _, st := range fd.Body.List {
					if d, ok := st.(*ast.DeferStmt); ok && isRelease(d.Call) {
						deferredRelease = true
					}
				}
				if !deferredRelease {
					bad(fd, fd, "ends with a lock held")
				}
			}
		}
	}
	if len(problems) > 0 {
		sort.Strings(problems)
		if len(problems) > 4 {
			problems = problems[:4]
		}
		facts = append(facts, fact{name, typ, "Known (false)", "nested or leaking lock use: " + strings.Join(problems, "; ")})
		return
	}
	known(name, typ, "true", fmt.Sprintf("package index: %d critical sections in %d functions that take a lock directly (%d reach one through calls); none acquires or calls a lock-taking function while holding, none leaves its region with the lock held", regions, direct, len(lockers)))
}

func isNilNode(n ast.Node) bool {
	switch x := n.(type) {
	case ast.Stmt:
		return x == nil
	case ast.Expr:
		return x == nil
	}
	return false
}

// C13: the first vertex of an empty index is registered in the id map before it is offered as entry point (Insert's
// branch for a nil entry point: storeVertex, then CompareAndSwapPointer from nil) - the order of Proto/FirstInsert.v
// with store_first = true.
func init() { extraExtractors = append(extraExtractors, factsFirstInsert) }

func factsFirstInsert() {
	const name, typ = "first_vertex_stored_before_published", "bool"
	txt, fd := bodyText("index/hnsw.go", "Hnsw", "Insert")
	if fd == nil {
		unrec(name, typ, "Hnsw.Insert not found")
		return
	}
	want := "if (*hnswVertex)(atomic.LoadPointer(&this.entrypoint)) == nil { vertex = newHnswVertex(id, value, metadata, 0) if err := this.storeVertex(vertex); err != nil { return err } if atomic.CompareAndSwapPointer(&this.entrypoint, nil, unsafe.Pointer(vertex)) { return nil }"
	is, ic := strings.Index(txt, "this.storeVertex(vertex)"), strings.Index(txt, "atomic.CompareAndSwapPointer(&this.entrypoint, nil,")
	known(name, typ, b(strings.Contains(txt, want) && is >= 0 && ic > is),
		"Insert into an empty index: storeVertex, then the compare-and-swap of the entry point from nil")
}
