package main

import "strings"

func init() { extraExtractors = append(extraExtractors, factsMembership) }

func factsMembership() {
	// ---- the address book is part of the zero group's snapshots
	setup, f0 := bodyText("server.go", "Server", "setup")
	snap, f1 := bodyText("storage/raft/nodes_manager.go", "NodesManager", "snapshot")
	psnap, f2 := bodyText("storage/raft/nodes_manager.go", "NodesManager", "processSnapshot")
	reg, f3 := bodyText("storage/raft/nodes_manager.go", "NodesManager", "RegisterSnapshots")
	if f0 == nil {
		unrec("snapshot_has_addresses", "bool", "Server.setup not found")
	} else if f1 == nil || f2 == nil || f3 == nil {
		known("snapshot_has_addresses", "bool", "false", "the nodes manager has no snapshot functions")
	} else {
		i := strings.Index(setup, `this.nodesManager.RegisterSnapshots(sharedGroup.Get("nodes"))`)
		j := strings.Index(setup, "this.zeroGroup.Start()")
		known("snapshot_has_addresses", "bool", b(i >= 0 && j > i &&
			strings.Contains(reg, "group.RegisterProcessSnapshotFn(this.processSnapshot)") && strings.Contains(reg, "group.RegisterSnapshotFn(this.snapshot)") &&
			strings.Contains(snap, "json.Marshal(this.clusterConn.Nodes())") &&
			// the whole restore: unmarshal, drop every known node the snapshot does not list (unconditionally, never oneself), add what it lists
			strings.HasSuffix(strings.TrimSpace(psnap), "for id, _ := range this.clusterConn.Nodes() { if _, exists := nodes[id]; !exists && id != this.clusterConn.Id() { this.clusterConn.RemoveNode(id) } } for id, address := range nodes { this.clusterConn.AddNode(id, address) } return nil }") &&
			strings.Count(psnap, "if ") == 2 && strings.Contains(psnap, "if err := json.Unmarshal(data, &nodes); err != nil { return err }")),
			"the nodes manager registers with the shared zero group before it starts; its snapshot is the address book; restoring replaces the book except the own entry")
	}
	// ---- the bootstrap entry carries the node's address
	sn, f4 := bodyText("storage/raft/group.go", "", "startRaftNode")
	ng, f5 := bodyText("storage/raft/group.go", "", "NewRaftGroup")
	if f4 == nil || f5 == nil {
		unrec("bootstrap_carries_address", "bool", "startRaftNode / NewRaftGroup not found")
	} else {
		known("bootstrap_carries_address", "bool", b(strings.Contains(sn, "peer := etcdRaft.Peer{ID: nodeId} if nodeId == id {") &&
			strings.Contains(sn, "peer.Context = []byte(address)") && strings.Contains(sn, "peers = append(peers, peer)") &&
			strings.Contains(ng, "startRaftNode(transport.NodeId(), transport.Address(), nodeIds, storage, logger)")),
			"the bootstrap membership change of a group carries the starting node's own address")
	}
	// ---- join / remove are acknowledged after the change has been applied by the proposer
	an, f6 := bodyText("storage/raft/nodes_manager.go", "NodesManager", "AddNode")
	rn, f7 := bodyText("storage/raft/nodes_manager.go", "NodesManager", "RemoveNode")
	pw, f8 := bodyText("storage/raft/group.go", "RaftGroup", "proposeConfChangeAndWait")
	pc, f9 := bodyText("storage/raft/group.go", "RaftGroup", "processConfChange")
	if f6 == nil || f7 == nil || f9 == nil {
		unrec("membership_ack_after_apply", "bool", "AddNode / RemoveNode / processConfChange not found")
	} else if f8 == nil {
		known("membership_ack_after_apply", "bool", "false", "membership changes are acknowledged when proposed")
	} else {
		k1 := strings.Index(pc, "this.raftConfState = this.raft.ApplyConfChange(cc)")
		k2 := strings.Index(pc, "this.notifyConfChangeApplied(cc.ID)")
		known("membership_ack_after_apply", "bool", b(strings.Contains(an, "this.zeroGroup.ProposeJoinAndWait(id, address)") &&
			strings.Contains(rn, "this.zeroGroup.ProposeLeaveAndWait(id)") &&
			strings.Contains(pw, "err := this.raft.ProposeConfChange(ctx, cc) if err == nil { select { case <-applied: cancelCtx() return nil case <-ctx.Done(): } }") &&
			strings.Contains(pw, "return ConfChangeNotAppliedErr") && k1 >= 0 && k2 > k1),
			"AddNode / RemoveNode return nil only after this node applied the membership change it proposed")
	}
	if f9 == nil {
		unrec("confchange_feeds_book", "bool", "processConfChange not found")
	} else {
		known("confchange_feeds_book", "bool", b(strings.Contains(pc, "if uuid.Equal(this.id, uuid.Nil) {") &&
			strings.Contains(pc, "case raftpb.ConfChangeAddNode: this.transport.addNodeAddress(cc.NodeID, string(cc.Context))") &&
			strings.Contains(pc, "case raftpb.ConfChangeRemoveNode: this.transport.removeNodeAddress(cc.NodeID)")),
			"only the zero group feeds the address book: add with the address in the change's context, remove")
	}
	// ---- Conn.AddNode only adds absent ids; RemoveNode deletes; tryJoin adds what the member streams; AddNode streams book + joiner
	ca, f10 := bodyText("cluster/conn.go", "Conn", "AddNode")
	cr, f11 := bodyText("cluster/conn.go", "Conn", "RemoveNode")
	tj, f12 := bodyText("storage/raft/nodes_manager.go", "NodesManager", "tryJoin")
	nt, f13 := bodyText("storage/raft/transport.go", "", "NewTransport")
	if f10 == nil || f11 == nil || f12 == nil || f13 == nil || f6 == nil {
		unrec("book_ops_shape", "bool", "Conn.AddNode / RemoveNode / tryJoin / NewTransport not found")
	} else {
		known("book_ops_shape", "bool", b(strings.Contains(ca, "if _, exists := this.addresses[id]; !exists { this.addresses[id] = address") &&
			strings.Contains(cr, "if _, exists := this.addresses[id]; exists { delete(this.addresses, id)") &&
			strings.Contains(tj, "this.clusterConn.AddNode(node.GetId(), node.GetAddress())") &&
			strings.Contains(tj, "Id: this.clusterConn.Id(), Address: this.clusterConn.Address(),") &&
			strings.Contains(an, "nodes := this.clusterConn.Nodes() nodes[id] = address return nodes, nil") &&
			strings.Contains(nt, "clusterConn.AddNode(nodeId, address)")),
			"add-if-absent, delete, own entry at start, the handshake streams the member's book plus the joiner and the joiner adds it")
	}
}
