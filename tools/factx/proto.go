package main

import (
	"fmt"
	"go/ast"
	"os"
	"path/filepath"
	"regexp"
	"strconv"
	"strings"
)

func init() { extraExtractors = append(extraExtractors, factsProto) }

func goModVersion() (int, int) {
	b, err := os.ReadFile(filepath.Join(repo, "go.mod"))
	if err != nil {
		return 0, 0
	}
	m := regexp.MustCompile(`(?m)^go (\d+)\.(\d+)`).FindStringSubmatch(string(b))
	if m == nil {
		return 0, 0
	}
	a, _ := strconv.Atoi(m[1])
	c, _ := strconv.Atoi(m[2])
	return a, c
}

func factsProto() {
	// ---------------- C09
	closes, buffered, bound := false, true, true
	found := true
	for _, fn := range []string{"Search", "SearchPartitions"} {
		txt, fd := bodyText("storage/dataset.go", "Dataset", fn)
		if fd == nil {
			found = false
			break
		}
		if strings.Contains(txt, "close(resultCh)") || strings.Contains(txt, "close(errorCh)") {
			closes = true
		}
		coll := "nodePartitions"
		if fn == "SearchPartitions" {
			coll = "partitions"
		}
		if !strings.Contains(txt, "resultCh := make(chan index.SearchResult, len("+coll+"))") || !strings.Contains(txt, "errorCh := make(chan error, len("+coll+"))") {
			buffered = false
		}
		if !strings.Contains(txt, "for i := 0; i < len("+coll+"); i++ { select { case items := <-resultCh: result = append(result, items...) case err := <-errorCh: return nil, err case <-ctx.Done(): return nil, ctx.Err() } }") {
			bound = false
		}
	}
	if !found {
		unrec("search_closes_channels", "bool", "Search/SearchPartitions not found")
	} else {
		known("search_closes_channels", "bool", b(closes), "Dataset.Search / SearchPartitions close resultCh/errorCh while the collector may still select on them")
		known("search_chans_buffered_per_worker", "bool", b(buffered), "both channels are buffered with one slot per worker")
		known("search_collector_shape", "bool", b(bound), "the collector performs exactly one select per worker: result appended, error returned, ctx.Done returned")
	}
	// each worker sends exactly one message
	w1, f1 := bodyText("storage/dataset.go", "Dataset", "searchPartition")
	if f1 == nil {
		unrec("search_worker_one_message", "bool", "searchPartition not found")
	} else {
		// … and so does the per-node worker: every error it sends is followed by return, its list is sent once, at the end
		w2, f2 := bodyText("storage/dataset.go", "Dataset", "searchPartitionsOnNode")
		node := f2 != nil && strings.Count(w2, "errorCh <- err") > 0 && strings.Count(w2, "errorCh <- err") == strings.Count(w2, "errorCh <- err return }") &&
			strings.Count(w2, "resultCh <-") == 1 && strings.HasSuffix(strings.TrimSpace(w2), "resultCh <- result }") &&
			strings.Contains(w2, "if err == io.EOF { break }") && strings.Count(w2, "break") == 1
		known("search_worker_one_message", "bool", b(node && w1 == "{ defer wg.Done() result, err := partition.search(ctx, query, k) if err != nil { errorCh <- err return } resultCh <- result }"), "searchPartition and searchPartitionsOnNode send exactly one message each (every error send is followed by return)")
	}
	// ---------------- C17
	_, f2 := findFuncBody("storage/dataset.go", "Dataset", "SizeInfo")
	if f2 == nil {
		unrec("sizeinfo_captures_loopvar", "bool", "SizeInfo not found")
	} else {
		captures := false
		why := ""
		ast.Inspect(f2.Body, func(n ast.Node) bool {
			rs, ok := n.(*ast.RangeStmt)
			if !ok {
				return true
			}
			v, _ := rs.Value.(*ast.Ident)
			if v == nil {
				return true
			}
			// per-iteration copy `v := v` at the top level of the loop body or in the branch that spawns?
			copied := map[*ast.FuncLit]bool{}
			var walk func(stmts []ast.Stmt, hasCopy bool)
			walk = func(stmts []ast.Stmt, hasCopy bool) {
				for _, st := range stmts {
					if as, ok := st.(*ast.AssignStmt); ok && as.Tok.String() == ":=" && len(as.Lhs) == 1 && len(as.Rhs) == 1 {
						if l, ok := as.Lhs[0].(*ast.Ident); ok && l.Name == v.Name {
							if r, ok := as.Rhs[0].(*ast.Ident); ok && r.Name == v.Name {
								hasCopy = true
							}
						}
					}
					switch s := st.(type) {
					case *ast.IfStmt:
						walk(s.Body.List, hasCopy)
						if eb, ok := s.Else.(*ast.BlockStmt); ok {
							walk(eb.List, hasCopy)
						}
					case *ast.GoStmt:
						if fl, ok := s.Call.Fun.(*ast.FuncLit); ok {
							copied[fl] = hasCopy
							// parameter shadowing the range variable?
							for _, p := range fl.Type.Params.List {
								for _, nm := range p.Names {
									if nm.Name == v.Name {
										copied[fl] = true
									}
								}
							}
						}
					}
				}
			}
			walk(rs.Body.List, false)
			for fl, c := range copied {
				uses := false
				ast.Inspect(fl.Body, func(x ast.Node) bool {
					if id, ok := x.(*ast.Ident); ok && id.Name == v.Name {
						uses = true
					}
					return true
				})
				maj, min := goModVersion()
				if uses && !c && (maj < 1 || (maj == 1 && min < 22)) {
					captures = true
					why = fmt.Sprintf("goroutine closure reads range variable %q (go.mod go %d.%d)", v.Name, maj, min)
				}
			}
			return true
		})
		known("sizeinfo_captures_loopvar", "bool", b(captures), "SizeInfo: remote worker closure reads the shared range variable "+why)
		txt := norm(src(f2.Body))
		known("sizeinfo_shape", "bool", b(strings.Contains(txt, "errorCh := make(chan error, len(this.partitions))") &&
			strings.Contains(txt, "go func() { wg.Wait() close(errorCh) }()") &&
			strings.Contains(txt, "for i := 0; i < len(this.partitions); i++ { select { case err := <-errorCh: if err != nil { return 0, 0, err } case <-ctx.Done(): return 0, 0, ctx.Err() } }") &&
			strings.Count(txt, "errorCh <- err return") == 2 && strings.Contains(txt, "errorCh <- nil")),
			"SizeInfo: local partitions push nil, failing remote lookups push their error, closer closes errorCh, one receive per partition")
	}
	// ---------------- C11
	// waiter ids travel inside replicated log entries and are looked up by every replica's apply loop: they have to be
	// unique across nodes, i.e. drawn as random UUIDs, not numbered per registry
	if txt, fd := bodyText("utils/notificator.go", "Notificator", "Create"); fd == nil {
		unrec("notification_ids_global", "bool", "Notificator.Create not found")
	} else {
		known("notification_ids_global", "bool", b(strings.HasPrefix(txt, "{ id := uuid.NewV4() c := make(chan interface{}, bufSize)") &&
			strings.Contains(txt, "this.chans[id] = c") && strings.HasSuffix(txt, "return c, id }") && strings.Count(txt, "id :=") == 1 && !strings.Contains(txt, "id =")),
			"Notificator.Create draws the waiter id with uuid.NewV4() and registers the channel under it")
	}
	minBuf := -1
	okBuf := true
	for _, f := range []string{"storage/partition.go", "storage/dataset_manager.go"} {
		file := parse(f)
		if file == nil {
			okBuf = false
			continue
		}
		for _, c := range calls(file) {
			if callName(c) == "this.notificator.Create" && len(c.Args) == 1 {
				n, err := strconv.Atoi(src(c.Args[0]))
				if err != nil {
					okBuf = false
				} else if minBuf < 0 || n < minBuf {
					minBuf = n
				}
			}
		}
	}
	if !okBuf || minBuf < 0 {
		unrec("propose_notif_buf", "nat", "notificator.Create call sites not recognised")
	} else {
		known("propose_notif_buf", "nat", fmt.Sprint(minBuf), "smallest buffer size passed to notificator.Create by a proposer (partition + catalogue)")
	}
	nonblocking := true
	for _, f := range []string{"storage/partition.go", "storage/dataset_manager.go"} {
		file := parse(f)
		if file == nil {
			continue
		}
		for _, c := range calls(file) {
			if callName(c) == "this.notificator.Notify" && (len(c.Args) != 3 || src(c.Args[2]) != "false") {
				nonblocking = false
			}
		}
	}
	known("apply_notify_nonblocking", "bool", b(nonblocking), "every Notify issued by an apply function is non-blocking")
	pw, f3 := bodyText("storage/partition.go", "partition", "proposeAndWaitForCommit")
	if f3 == nil {
		unrec("propose_order", "bool", "proposeAndWaitForCommit not found")
	} else {
		i1 := strings.Index(pw, "this.notificator.Create(")
		i2 := strings.Index(pw, "this.raft.Propose(ctx, proposalData)")
		i3 := strings.Index(pw, "select { case res := <-notifC: return res, nil case <-ctx.Done(): return nil, ctx.Err() }")
		known("propose_order", "bool", b(i1 >= 0 && i1 < i2 && i2 < i3 && strings.Contains(pw, "defer func() { this.notificator.Remove(notifId) }()")), "create channel; propose; select on channel / deadline; remove")
	}
	proxyErr, dimFirst := true, true
	for _, fn := range []string{"Insert", "Update", "Remove"} {
		txt, fd := bodyText("storage/dataset.go", "Dataset", fn)
		if fd == nil {
			proxyErr, dimFirst = false, false
			continue
		}
		if !strings.Contains(txt, "client, err := this.getDataManagerClient(ctx, partition.randomNodeId()) if err != nil { return err }") {
			proxyErr = false
		}
		if fn != "Remove" && !strings.HasPrefix(txt, "{ if err := this.checkDimension(&value); err != nil { return err }") {
			dimFirst = false
		}
	}
	known("proxy_returns_err", "bool", b(proxyErr), "Insert/Update/Remove return the error when the owner's client cannot be obtained")
	known("dimension_checked_first", "bool", b(dimFirst), "Insert/Update reject a wrong dimension before routing or proposing")
}

func findFuncBody(rel, recv, name string) (string, *ast.FuncDecl) {
	fd := findFunc(rel, recv, name)
	if fd == nil {
		return "", nil
	}
	return norm(src(fd.Body)), fd
}
