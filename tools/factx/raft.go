package main

import (
	"fmt"
	"go/ast"
	"sort"
	"strings"
)

func init() { extraExtractors = append(extraExtractors, factsRaftGlue) }

func factsRaftGlue() {
	run, fd := bodyText("storage/raft/group.go", "RaftGroup", "run")
	if fd == nil {
		unrec("ready_loop_order", "list string", "run not found")
		unrec("save_every_ready", "bool", "run not found")
	} else {
		i := strings.Index(run, "case rd := <-this.raft.Ready():")
		j := strings.Index(run, "case <-this.ctx.Done():")
		if i < 0 || j < i {
			unrec("ready_loop_order", "list string", "Ready case not found")
			unrec("save_every_ready", "bool", "Ready case not found")
		} else {
			body := run[i:j]
			marks := map[string]string{
				"send-if-leader":     "if this.isLeader() { this.transport.Send(this.ctx, this, rd.Messages) }",
				"save":               "this.wal.Save(rd.HardState, rd.Entries, rd.Snapshot)",
				"apply-snapshot":     "this.processSnapshotFn(rd.Snapshot.Data)",
				"apply-entries":      "for _, entry := range rd.CommittedEntries {",
				"send-if-not-leader": "if !this.isLeader() { this.transport.Send(this.ctx, this, rd.Messages) }",
				"advance":            "this.raft.Advance()",
			}
			type pos struct {
				name string
				at   int
			}
			var ps []pos
			ok := true
			for name, m := range marks {
				k := strings.Index(body, m)
				if k < 0 || strings.Count(body, m) != 1 {
					ok = false
				}
				ps = append(ps, pos{name, k})
			}
			if !ok || strings.Count(body, "this.transport.Send(") != 2 {
				unrec("ready_loop_order", "list string", "a step of the Ready iteration is missing or duplicated")
			} else {
				sort.Slice(ps, func(a, b int) bool { return ps[a].at < ps[b].at })
				names := make([]string, len(ps))
				for k, p := range ps {
					names[k] = `"` + p.name + `"`
				}
				known("ready_loop_order", "list string", "["+strings.Join(names, "; ")+"]", "order of the steps of one Ready iteration in RaftGroup.run")
			}
			known("save_every_ready", "bool", b(strings.Contains(body, "if this.isLeader() { this.transport.Send(this.ctx, this, rd.Messages) } if err := this.wal.Save(rd.HardState, rd.Entries, rd.Snapshot); err != nil { this.log.Fatal(err) } if !etcdRaft.IsEmptySnap(rd.Snapshot) {")),
				"every Ready is handed to wal.Save unconditionally (also one that only advances the commit index), right after the leader's early send")
			known("apply_advances_applied_index", "bool", b(strings.Contains(body, "lastAppliedIdx = entry.Index") &&
				strings.Contains(body, "if len(entry.Data) > 0 { if err := this.processFn(entry.Data); err != nil { this.log.Fatal(err) } }")),
				"every committed entry advances lastAppliedIdx; normal entries with data go to processFn")
			known("snapshot_on_apply_goroutine", "bool", b(strings.Contains(run, "case <-snapshotTicker.C: if err := this.trySnapshot(lastAppliedIdx, snapshotOffset)")),
				"the periodic snapshot runs on the apply goroutine with the applied index")
		}
	}
	ts, f2 := bodyText("storage/raft/group.go", "RaftGroup", "trySnapshot")
	if f2 == nil {
		unrec("snapshot_labelled_with_applied_index", "bool", "trySnapshot not found")
	} else {
		known("snapshot_labelled_with_applied_index", "bool", b(strings.Contains(ts, "snapshotData, err := this.snapshotFn()") &&
			strings.Contains(ts, "this.wal.CreateSnapshot(lastCommittedIdx, this.raftConfState, snapshotData)")),
			"trySnapshot stores the state machine's snapshot under the index it was given (the applied index)")
	}
	stt, f3 := bodyText("storage/raft/group.go", "RaftGroup", "Start")
	if f3 == nil {
		unrec("start_loads_snapshot", "bool", "Start not found")
	} else {
		known("start_loads_snapshot", "bool", b(strings.Contains(stt, "snap, err := this.wal.Snapshot()") &&
			strings.Contains(stt, "if !etcdRaft.IsEmptySnap(snap) { if err := this.processSnapshotFn(snap.Data); err != nil { return err } }") &&
			(strings.Contains(stt, "go this.run()") || strings.Contains(stt, "go func() { defer close(this.done) this.run() }()"))), "Start loads the stored snapshot before the loop starts")
	}
	sn, f4 := bodyText("storage/raft/group.go", "", "startRaftNode")
	if f4 == nil {
		unrec("boot_rule_guarded", "bool", "startRaftNode not found")
	} else {
		guarded := strings.Contains(sn, "pristine, err := isPristine(storage)") && strings.Contains(sn, "bootstrap = pristine") &&
			strings.Contains(sn, "if bootstrap {") && strings.Contains(sn, "return etcdRaft.RestartNode(raftConfig), nil")
		unguarded := strings.Contains(sn, "if len(nodeIds) > 0 { var peers []etcdRaft.Peer")
		switch {
		case guarded:
			ip, f5 := bodyText("storage/raft/group.go", "", "isPristine")
			if f5 != nil && strings.Contains(ip, "return etcdRaft.IsEmptyHardState(hardState) && etcdRaft.IsEmptySnap(snapshot) && lastIndex == 0, nil") {
				known("boot_rule_guarded", "bool", "true", "StartNode only for a store without hard state, snapshot and entries; RestartNode otherwise")
			} else {
				unrec("boot_rule_guarded", "bool", "isPristine changed")
			}
		case unguarded:
			known("boot_rule_guarded", "bool", "false", "StartNode whenever peer ids are given")
		default:
			unrec("boot_rule_guarded", "bool", "startRaftNode changed")
		}
	}
	// partition.addNode: a replica added to a running group starts its raft node with no peers (it takes the group's log)
	if an, fd := bodyText("storage/partition.go", "partition", "addNode"); fd == nil {
		unrec("add_node_joins_existing_log", "bool", "partition.addNode not found")
	} else {
		known("add_node_joins_existing_log", "bool", b(an == "{ this.meta.NodeIds = append(this.meta.NodeIds, nodeId) if nodeId == this.raftTransport.NodeId() { this.loadRaft(nil) } }"),
			"addNode: own id -> loadRaft(nil); body: "+an)
	}
}

// C05: the bytes handed to raft.Propose are a fresh slice every time (raft keeps the slice it is given: the entry in its
// unstable log, the append message and the durable write all read it later; a reused buffer would let a later proposal
// rewrite an earlier entry between the leader's send and its durable write).
func init() { extraExtractors = append(extraExtractors, factsProposalBytes) }

func factsProposalBytes() {
	const name, typ = "proposal_bytes_fresh", "bool"
	n := 0
	why := ""
	for _, rel := range []string{"storage/partition.go", "storage/dataset_manager.go", "storage/raft/shared_group.go"} {
		f := parse(rel)
		if f == nil {
			unrec(name, typ, rel+" not found")
			return
		}
		for _, d := range f.Decls {
			fd, ok := d.(*ast.FuncDecl)
			if !ok || fd.Body == nil {
				continue
			}
			for _, c := range calls(fd.Body) {
				sel, ok := c.Fun.(*ast.SelectorExpr)
				if !ok || sel.Sel.Name != "Propose" || len(c.Args) != 2 {
					continue
				}
				n++
				arg, ok := c.Args[1].(*ast.Ident)
				if !ok {
					why = fd.Name.Name + ": Propose is not given a local variable"
					continue
				}
				fresh := false
				ast.Inspect(fd.Body, func(x ast.Node) bool {
					as, ok := x.(*ast.AssignStmt)
					if !ok || len(as.Lhs) == 0 || len(as.Rhs) != 1 {
						return true
					}
					if id, ok := as.Lhs[0].(*ast.Ident); ok && id.Name == arg.Name {
						if rc, ok := as.Rhs[0].(*ast.CallExpr); ok {
							cn := callName(rc)
							fresh = cn == "proto.Marshal" || strings.HasSuffix(cn, ".Marshal")
						} else {
							fresh = false
						}
					}
					return true
				})
				if !fresh {
					why = fd.Name.Name + ": the bytes given to Propose do not come straight from Marshal"
				}
			}
		}
	}
	if n == 0 {
		unrec(name, typ, "no Propose call found")
		return
	}
	if why != "" {
		known(name, typ, "false", why)
		return
	}
	known(name, typ, "true", fmt.Sprintf("%d Propose calls, each given the result of a Marshal call of its own", n))
}

// C03/C04/C05: the raft node is configured with the stored log as it is - no Applied index that would make raft skip
// the committed entries a restarted replica has to replay into its (in-memory) index, no other field beyond the seven
// the model's boot rule knows.
func init() { extraExtractors = append(extraExtractors, factsRaftConfig) }

func factsRaftConfig() {
	const name, typ = "raft_config_shape", "bool"
	sn, fd := bodyText("storage/raft/group.go", "", "startRaftNode")
	if fd == nil {
		unrec(name, typ, "startRaftNode not found")
		return
	}
	lit := "raftConfig := &etcdRaft.Config{ ID: id, ElectionTick: 10, HeartbeatTick: 1, Storage: storage, MaxSizePerMsg: 4096, MaxInflightMsgs: 256, Logger: logger, }"
	known(name, typ, b(strings.Contains(sn, lit) && !strings.Contains(sn, "raftConfig.") && strings.Count(sn, "raftConfig") == 3),
		"startRaftNode: Config{ID, ElectionTick 10, HeartbeatTick 1, Storage, MaxSizePerMsg, MaxInflightMsgs, Logger} and nothing set afterwards (in particular no Applied)")
}
