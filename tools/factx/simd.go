package main

import (
	"crypto/sha256"
	"encoding/hex"
	"os"
	"path/filepath"
	"strings"
)

func init() { extraExtractors = append(extraExtractors, factsSimd) }

func factsSimd() {
	// ---- the SSE implementation object uses its kernels on aligned operands only
	f := parse("index/space/sse_impl.go")
	if f == nil {
		unrec("sse_guarded_by_alignment", "bool", "index/space/sse_impl.go not found")
	} else {
		t := norm(src(f))
		ok := strings.Contains(t, "return uintptr(unsafe.Pointer(&a[0]))%16 == 0 && uintptr(unsafe.Pointer(&b[0]))%16 == 0")
		for _, m := range []string{"EuclideanDistance", "ManhattanDistance", "CosineDistance"} {
			if !strings.Contains(t, "if !sseAligned(a, b) { return nativeSpaceImpl{}."+m+"(a, b) } return sse."+m+"(a, b)") {
				ok = false
			}
		}
		known("sse_guarded_by_alignment", "bool", b(ok), "sseSpaceImpl hands operands that are not 16-byte aligned to the portable kernels")
	}
	// ---- dispatch and the cosine wrapper
	sp := parse("index/space/space.go")
	if sp == nil {
		unrec("space_dispatch_shape", "bool", "index/space/space.go not found")
	} else {
		t := norm(src(sp))
		known("space_dispatch_shape", "bool", b(strings.Contains(t, "if cpuid.CPU.AVX() { return space{impl: avxSpaceImpl{}} } if cpuid.CPU.SSE() { return space{impl: sseSpaceImpl{}} } return space{impl: nativeSpaceImpl{}}") &&
			strings.Contains(t, "func (this *Cosine) Distance(a, b math.Vector) float32 { return math.Abs(this.impl.CosineDistance(a, b)) }")),
			"AVX, else SSE, else portable; Cosine.Distance is the absolute value of the implementation's result")
	}
	// ---- the C sources the assembly was generated from, and the Go wrappers
	shape := func(file string, w string, sum string) bool {
		bs, err := os.ReadFile(filepath.Join(repo, file))
		if err != nil {
			return false
		}
		t := norm(string(bs))
		return strings.Count(t, "for (int i = 0; i < (len / "+w+") * "+w+"; i += "+w+")") == 3 && strings.Count(t, "for (int i = (len / "+w+") * "+w+"; i < len; i++)") == 3 &&
			strings.Contains(t, sum) && strings.Contains(t, "*result += diff * diff;") && strings.Contains(t, "*result += abs(a[i] - b[i]);") &&
			strings.Contains(t, "*result_norm_squared = (norm_a_sum * norm_b_sum);")
	}
	known("simd_sources_shape", "bool", b(
		shape("simd/cpp/avx.cpp", "8", "vec = _mm256_hadd_ps(vec, vec); vec = _mm256_hadd_ps(vec, vec); *result = (((float*)&vec)[0] + ((float*)&vec)[4]);") &&
			shape("simd/cpp/sse.cpp", "4", "*result = (((float*)&vec)[0] + ((float*)&vec)[1] + ((float*)&vec)[2] + ((float*)&vec)[3]);")),
		"vector body over (len/w)*w elements, scalar tail, lane reduction order, product of the squared norms (avx.cpp w=8, sse.cpp w=4)")
	wr := true
	for _, pk := range []string{"simd/avx/AVX_amd64.go", "simd/sse/SSE_amd64.go"} {
		g := parse(pk)
		if g == nil {
			wr = false
			continue
		}
		t := norm(src(g))
		if !strings.Contains(t, "return float32(math.Sqrt(float64(result)))") || !strings.Contains(t, "return 1.0 - dot/float32(math.Sqrt(float64(norm_squared)))") ||
			strings.Count(t, "unsafe.Pointer(uintptr(len(a))), unsafe.Pointer(&a[0]), unsafe.Pointer(&b[0])") != 3 {
			wr = false
		}
	}
	known("simd_wrappers_shape", "bool", b(wr), "the Go wrappers pass len(a) and the two data pointers; square root / quotient taken in Go")
	nv := parse("index/space/native_impl.go")
	if nv == nil {
		unrec("native_kernels_shape", "bool", "native_impl.go not found")
	} else {
		t := norm(src(nv))
		known("native_kernels_shape", "bool", b(strings.Contains(t, "distance += math.Square(a[i] - b[i])") && strings.Contains(t, "return math.Sqrt(distance)") &&
			strings.Contains(t, "distance += math.Abs(a[i] - b[i])") && strings.Contains(t, "return 1.0 - dot/(math.Sqrt(aNorm)*math.Sqrt(bNorm))")), "the portable loops: one accumulator, left to right")
	}
	// ---- the generated assembly is the one the model was compared with bit for bit
	h := sha256.New()
	okAsm := true
	for _, pk := range []string{"simd/avx/AVX_amd64.s", "simd/sse/SSE_amd64.s"} {
		bs, err := os.ReadFile(filepath.Join(repo, pk))
		if err != nil {
			okAsm = false
		}
		h.Write(bs)
	}
	if !okAsm {
		unrec("simd_asm_digest", "string", "assembly files not found")
	} else {
		known("simd_asm_digest", "string", `"`+hex.EncodeToString(h.Sum(nil))[:16]+`"`, "sha256 (first 16 hex digits) of AVX_amd64.s followed by SSE_amd64.s")
	}
}
