package main

// A small Go -> Gallina translator for the pure integer cores the models rest on.  Unlike the facts (which recognise a
// shape and report a value), these definitions are regenerated from the expression trees of the source on every run and
// written to coq/Generated/Translated.v; the property files prove them equal to the hand-written models, so a change of
// the arithmetic changes the generated definition and the equation has to be re-proved (or fails).
//
// Supported: functions and single expressions over int (Z, no overflow assumed for comparisons) and uint64 (N, + - *
// wrap modulo 2^64, % and / guarded against a zero divisor); assignments, `for _, v := range xs { if c { acc = e } }`
// folds, a final return; conversions int(..)/uint(..)/uint64(..) (values in range), len(x), slices x[:k] / x[k:],
// binary.LittleEndian.Uint64, calls to other translated functions with variadic arguments.  Anything else: the
// definition is not emitted and the file says why (the property file that needs it then fails to check).

import (
	"fmt"
	"go/ast"
	"go/token"
	"os"
	"path/filepath"
	"strings"
)

type trCtx struct {
	errResult bool
	unsigned  bool
	params    []string          // in order
	ptype     map[string]string // coq type
	locals    map[string]bool
	guards    []string
	err       string
	known     map[string]bool // translated Go functions callable by name
}

func coqName(n string) string {
	switch n {
	case "mod", "min", "max", "fun", "end", "in", "let", "match", "with", "at", "as", "if", "then", "else", "return", "Type", "Set", "Prop":
		return n + "_"
	}
	return n
}

func (c *trCtx) fail(f string, a ...interface{}) string {
	if c.err == "" {
		c.err = fmt.Sprintf(f, a...)
	}
	return "?"
}

func (c *trCtx) free(name string) string {
	name = coqName(strings.NewReplacer(".", "_", "(", "", ")", "").Replace(name))
	if c.locals[name] {
		return name
	}
	if _, ok := c.ptype[name]; !ok {
		c.params = append(c.params, name)
		if c.unsigned {
			c.ptype[name] = "N"
		} else {
			c.ptype[name] = "Z"
		}
	}
	return name
}

func (c *trCtx) expr(e ast.Expr) string {
	switch x := e.(type) {
	case *ast.BasicLit:
		if x.Kind == token.INT {
			return x.Value
		}
		return c.fail("literal %s", x.Value)
	case *ast.ParenExpr:
		return c.expr(x.X)
	case *ast.Ident:
		if x.Name == "MaxIntVal" {
			return "MaxIntVal"
		}
		return c.free(x.Name)
	case *ast.SelectorExpr:
		switch norm(src(x)) {
		case "math.MaxUint8":
			return "255"
		case "math.MaxUint16":
			return "65535"
		case "math.MaxUint32":
			return "4294967295"
		case "uuid.Size":
			return "16" // github.com/satori/go.uuid: a UUID is 16 bytes
		}
		if v, ok := repoConst(norm(src(x))); ok {
			return v
		}
		return c.free(norm(src(x)))
	case *ast.UnaryExpr:
		if x.Op == token.SUB && !c.unsigned {
			return "(- " + c.expr(x.X) + ")"
		}
		if x.Op == token.NOT {
			if id, ok := x.X.(*ast.Ident); ok {
				// a flag computed elsewhere (the "ok" of a map lookup): a boolean input of the expression
				nm := coqName(id.Name)
				if _, seen := c.ptype[nm]; !seen {
					c.params = append(c.params, nm)
					c.ptype[nm] = "bool"
				}
				return "(negb " + nm + ")"
			}
			return "(negb " + c.expr(x.X) + ")"
		}
		return c.fail("unary %s", x.Op)
	case *ast.BinaryExpr:
		a, b2 := c.expr(x.X), c.expr(x.Y)
		switch x.Op {
		case token.ADD:
			if c.unsigned {
				return fmt.Sprintf("((%s + %s) mod two64N)", a, b2)
			}
			return fmt.Sprintf("(%s + %s)", a, b2)
		case token.SUB:
			if c.unsigned {
				return fmt.Sprintf("((%s + two64N - %s) mod two64N)", a, b2)
			}
			return fmt.Sprintf("(%s - %s)", a, b2)
		case token.MUL:
			if c.unsigned {
				return fmt.Sprintf("((%s * %s) mod two64N)", a, b2)
			}
			return fmt.Sprintf("(%s * %s)", a, b2)
		case token.REM, token.QUO:
			if _, isParam := c.ptype[b2]; !isParam || c.locals[b2] {
				return c.fail("divisor %s is not a parameter", b2)
			}
			seen := false
			for _, g := range c.guards {
				seen = seen || g == b2
			}
			if !seen {
				c.guards = append(c.guards, b2)
			}
			if x.Op == token.REM {
				if c.unsigned {
					return fmt.Sprintf("(%s mod %s)", a, b2)
				}
				return fmt.Sprintf("(Z.rem %s %s)", a, b2)
			}
			if c.unsigned {
				return fmt.Sprintf("(%s / %s)", a, b2)
			}
			return fmt.Sprintf("(Z.quot %s %s)", a, b2)
		case token.LSS:
			return fmt.Sprintf("(%s <? %s)", a, b2)
		case token.GTR:
			return fmt.Sprintf("(%s <? %s)", b2, a)
		case token.LEQ:
			return fmt.Sprintf("(%s <=? %s)", a, b2)
		case token.GEQ:
			return fmt.Sprintf("(%s <=? %s)", b2, a)
		case token.EQL:
			return fmt.Sprintf("(%s =? %s)", a, b2)
		case token.LOR:
			return fmt.Sprintf("(%s || %s)", a, b2)
		case token.LAND:
			return fmt.Sprintf("(%s && %s)", a, b2)
		}
		return c.fail("operator %s", x.Op)
	case *ast.SliceExpr:
		base := c.expr(x.X)
		switch {
		case x.Low == nil && x.High != nil:
			return fmt.Sprintf("(firstn %s %s)", natLit(c, x.High), base)
		case x.Low != nil && x.High == nil:
			return fmt.Sprintf("(skipn %s %s)", natLit(c, x.Low), base)
		}
		return c.fail("slice expression %s", src(x))
	case *ast.CallExpr:
		fn := norm(src(x.Fun))
		switch fn {
		case "int", "uint", "uint64", "int64", "uint32":
			if len(x.Args) == 1 {
				return c.expr(x.Args[0])
			}
		case "len":
			if len(x.Args) == 1 {
				nm := "len_" + coqName(strings.NewReplacer(".", "_").Replace(norm(src(x.Args[0]))))
				if c.locals[nm] {
					return nm
				}
				if id, ok := x.Args[0].(*ast.Ident); ok && c.ptype[coqName(id.Name)] != "" && strings.HasPrefix(c.ptype[coqName(id.Name)], "list") {
					return fmt.Sprintf("(%s (length %s))", map[bool]string{true: "N.of_nat", false: "Z.of_nat"}[c.unsigned], coqName(id.Name))
				}
				return c.free("len_" + norm(src(x.Args[0])))
			}
		case "binary.LittleEndian.Uint64":
			if len(x.Args) == 1 && c.unsigned {
				return "(le_bytesN " + c.expr(x.Args[0]) + ")"
			}
		}
		short := fn
		if k := strings.LastIndex(short, "."); k >= 0 {
			short = short[k+1:]
		}
		if c.known[short] {
			var as []string
			for _, a := range x.Args {
				as = append(as, c.expr(a))
			}
			return fmt.Sprintf("(go_%s [%s])", short, strings.Join(as, "; "))
		}
		if len(x.Args) == 0 {
			// a nullary method of the receiver (this.Len()): an input of the expression
			return c.free(fn)
		}
		return c.fail("call %s", fn)
	}
	return c.fail("expression %s", src(e))
}

func natLit(c *trCtx, e ast.Expr) string {
	if l, ok := e.(*ast.BasicLit); ok && l.Kind == token.INT {
		return l.Value + "%nat"
	}
	return c.fail("slice bound %s", src(e))
}

// body: statements -> nested lets ending in the returned expression
func (c *trCtx) body(list []ast.Stmt) string {
	var sb strings.Builder
	for i, st := range list {
		switch s := st.(type) {
		case *ast.AssignStmt:
			if len(s.Lhs) != 1 || len(s.Rhs) != 1 {
				return c.fail("assignment %s", src(s))
			}
			id, ok := s.Lhs[0].(*ast.Ident)
			if !ok {
				return c.fail("assignment to %s", src(s.Lhs[0]))
			}
			rhs := c.expr(s.Rhs[0])
			nm := coqName(id.Name)
			c.locals[nm] = true
			sb.WriteString(fmt.Sprintf("let %s := %s in\n  ", nm, rhs))
		case *ast.RangeStmt:
			if k, isId := s.Key.(*ast.Ident); isId && k.Name != "_" {
				sb.WriteString(c.mapRange(s))
				continue
			}
			// for _, v := range xs { if cond { acc = e } }
			v, ok := s.Value.(*ast.Ident)
			xs, ok2 := s.X.(*ast.Ident)
			if !ok || !ok2 || len(s.Body.List) != 1 {
				return c.fail("loop %s", norm(src(s)))
			}
			ifs, ok := s.Body.List[0].(*ast.IfStmt)
			if !ok || ifs.Else != nil || ifs.Init != nil || len(ifs.Body.List) != 1 {
				return c.fail("loop body %s", norm(src(s.Body)))
			}
			as, ok := ifs.Body.List[0].(*ast.AssignStmt)
			if !ok || len(as.Lhs) != 1 || len(as.Rhs) != 1 || as.Tok != token.ASSIGN {
				return c.fail("loop body %s", norm(src(s.Body)))
			}
			acc, ok := as.Lhs[0].(*ast.Ident)
			if !ok || !c.locals[coqName(acc.Name)] {
				return c.fail("loop accumulator %s", src(as.Lhs[0]))
			}
			vn, an := coqName(v.Name), coqName(acc.Name)
			c.locals[vn] = true
			cond, upd := c.expr(ifs.Cond), c.expr(as.Rhs[0])
			delete(c.locals, vn)
			sb.WriteString(fmt.Sprintf("let %s := fold_left (fun %s %s => if %s then %s else %s) %s %s in\n  ", an, an, vn, cond, upd, an, coqName(xs.Name), an))
		case *ast.DeclStmt:
			gd, ok := s.Decl.(*ast.GenDecl)
			if !ok || gd.Tok != token.VAR || len(gd.Specs) != 1 {
				return c.fail("declaration %s", norm(src(s)))
			}
			vs := gd.Specs[0].(*ast.ValueSpec)
			if len(vs.Names) != 1 || len(vs.Values) != 1 {
				return c.fail("declaration %s", norm(src(s)))
			}
			rhs := c.expr(vs.Values[0])
			nm := coqName(vs.Names[0].Name)
			c.locals[nm] = true
			sb.WriteString(fmt.Sprintf("let %s := %s in\n  ", nm, rhs))
		case *ast.IfStmt:
			// if cond { return E }
			if s.Init != nil || s.Else != nil || len(s.Body.List) != 1 {
				return c.fail("if %s", norm(src(s)))
			}
			r, ok := s.Body.List[0].(*ast.ReturnStmt)
			if !ok || len(r.Results) != 1 {
				return c.fail("if %s", norm(src(s)))
			}
			sb.WriteString(fmt.Sprintf("if %s then %s else\n  ", c.expr(s.Cond), c.ret(r.Results[0])))
		case *ast.ReturnStmt:
			if len(s.Results) != 1 || i != len(list)-1 {
				return c.fail("return %s", src(s))
			}
			sb.WriteString(c.ret(s.Results[0]))
			return sb.String()
		default:
			return c.fail("statement %s", norm(src(st)))
		}
	}
	return c.fail("no return")
}

// ret: the value a return statement yields; in a function returning error, nil is "accepted" and anything else "refused"
func (c *trCtx) ret(e ast.Expr) string {
	if c.errResult {
		if id, ok := e.(*ast.Ident); ok && id.Name == "nil" {
			return "true"
		}
		return "false"
	}
	return c.expr(e)
}

// mapRange: `for k, v := range m { ... }` over a map of strings, seen through the lengths of its keys and values (the
// map is a list of (len k, len v) pairs; the order of a map iteration does not matter for the two forms supported):
//
//	every statement `if cond { return E }`      ->  if existsb (fun kv => cond) m then E else ...
//	every statement `acc += e` / `acc = acc + e` ->  let acc := fold_left (fun acc kv => acc + e ...) m acc in ...
func (c *trCtx) mapRange(s *ast.RangeStmt) string {
	k, _ := s.Key.(*ast.Ident)
	v, okv := s.Value.(*ast.Ident)
	m := norm(src(s.X))
	if !okv || c.ptype[coqName(m)] == "" {
		return c.fail("map loop %s", norm(src(s)))
	}
	lk, lv := "len_"+coqName(k.Name), "len_"+coqName(v.Name)
	c.locals[lk], c.locals[lv] = true, true
	defer func() { delete(c.locals, lk); delete(c.locals, lv) }()
	var out strings.Builder
	for _, st := range s.Body.List {
		switch b := st.(type) {
		case *ast.IfStmt:
			if b.Init != nil || b.Else != nil || len(b.Body.List) != 1 {
				return c.fail("map loop body %s", norm(src(b)))
			}
			r, ok := b.Body.List[0].(*ast.ReturnStmt)
			if !ok || len(r.Results) != 1 {
				return c.fail("map loop body %s", norm(src(b)))
			}
			out.WriteString(fmt.Sprintf("if existsb (fun kv => let '(%s, %s) := kv in %s) %s then %s else\n  ", lk, lv, c.expr(b.Cond), coqName(m), c.ret(r.Results[0])))
		case *ast.AssignStmt:
			if len(b.Lhs) != 1 || len(b.Rhs) != 1 || b.Tok != token.ADD_ASSIGN {
				return c.fail("map loop body %s", norm(src(b)))
			}
			acc, ok := b.Lhs[0].(*ast.Ident)
			if !ok || !c.locals[coqName(acc.Name)] {
				return c.fail("map loop accumulator %s", src(b.Lhs[0]))
			}
			an := coqName(acc.Name)
			add := fmt.Sprintf("(%s + %s)", an, c.expr(b.Rhs[0]))
			if c.unsigned {
				add = fmt.Sprintf("((%s + %s) mod two64N)", an, c.expr(b.Rhs[0]))
			}
			out.WriteString(fmt.Sprintf("let %s := fold_left (fun %s kv => let '(%s, %s) := kv in %s) %s %s in\n  ", an, an, lk, lv, add, coqName(m), an))
		default:
			return c.fail("map loop body %s", norm(src(st)))
		}
	}
	return out.String()
}

type trDef struct{ name, text, why string }

// repoConst: an integer constant declared in package math of the repository (math.VECTOR_COMPONENT_BYTES_SIZE)
func repoConst(sel string) (string, bool) {
	if !strings.HasPrefix(sel, "math.") {
		return "", false
	}
	name := strings.TrimPrefix(sel, "math.")
	for _, rel := range []string{"math/vector.go", "math/math.go"} {
		f := parse(rel)
		if f == nil {
			continue
		}
		for _, d := range f.Decls {
			gd, ok := d.(*ast.GenDecl)
			if !ok || gd.Tok != token.CONST {
				continue
			}
			for _, sp := range gd.Specs {
				vs := sp.(*ast.ValueSpec)
				for i, n := range vs.Names {
					if n.Name == name && i < len(vs.Values) {
						if l, ok := vs.Values[i].(*ast.BasicLit); ok && l.Kind == token.INT {
							return l.Value, true
						}
					}
				}
			}
		}
	}
	return "", false
}

// trMethod: a method of a map type (the receiver is the list of (len k, len v) pairs)
func trMethod(rel, recv, name, defName string, signed bool, known map[string]bool) trDef {
	fd := findFunc(rel, recv, name)
	if fd == nil {
		return trDef{name: defName, why: rel + ": " + recv + "." + name + " not found"}
	}
	c := &trCtx{ptype: map[string]string{}, locals: map[string]bool{}, known: known}
	if fd.Type.Results == nil || len(fd.Type.Results.List) != 1 || fd.Recv == nil || len(fd.Recv.List[0].Names) != 1 {
		return trDef{name: defName, why: "signature"}
	}
	rt := src(fd.Type.Results.List[0].Type)
	c.errResult = rt == "error"
	c.unsigned = !signed && (rt == "uint64" || rt == "uint")
	num := map[bool]string{true: "N", false: "Z"}[c.unsigned]
	rn := coqName(fd.Recv.List[0].Names[0].Name)
	c.params = append(c.params, rn)
	c.ptype[rn] = fmt.Sprintf("list (%s * %s)", num, num)
	bodyTxt := c.body(fd.Body.List)
	if c.err != "" {
		return trDef{name: defName, why: c.err}
	}
	res := num
	if c.errResult {
		res = "bool"
	}
	return trDef{name: defName, text: emitTyped(defName, c, bodyTxt, num, res)}
}

func trFunction(rel, name string, known map[string]bool) trDef {
	fd := findFunc(rel, "", name)
	if fd == nil {
		return trDef{name: name, why: rel + ": func " + name + " not found"}
	}
	c := &trCtx{ptype: map[string]string{}, locals: map[string]bool{}, known: known}
	if fd.Type.Results == nil || len(fd.Type.Results.List) != 1 {
		return trDef{name: name, why: "result list"}
	}
	rt := src(fd.Type.Results.List[0].Type)
	c.unsigned = rt == "uint64" || rt == "uint"
	num := map[bool]string{true: "N", false: "Z"}[c.unsigned]
	for _, p := range fd.Type.Params.List {
		t := src(p.Type)
		for _, n := range p.Names {
			nm := coqName(n.Name)
			c.params = append(c.params, nm)
			switch {
			case strings.HasPrefix(t, "...") || strings.HasPrefix(t, "[]") || t == "uuid.UUID":
				c.ptype[nm] = "list " + num
			default:
				c.ptype[nm] = num
			}
		}
	}
	bodyTxt := c.body(fd.Body.List)
	if c.err != "" {
		return trDef{name: name, why: c.err}
	}
	return trDef{name: name, text: emit("go_"+name, c, bodyTxt, num)}
}

// trAssigned: the right-hand side of the first `lhs := ...` in a method, as a function of its free variables
func trAssigned(rel, recv, fn, lhs, defName string, known map[string]bool) trDef {
	fd := findFunc(rel, recv, fn)
	if fd == nil {
		return trDef{name: defName, why: rel + ": " + fn + " not found"}
	}
	var rhs ast.Expr
	ast.Inspect(fd.Body, func(x ast.Node) bool {
		if as, ok := x.(*ast.AssignStmt); ok && rhs == nil && len(as.Lhs) == 1 && len(as.Rhs) == 1 && as.Tok == token.DEFINE {
			if id, ok := as.Lhs[0].(*ast.Ident); ok && id.Name == lhs {
				rhs = as.Rhs[0]
			}
		}
		return true
	})
	if rhs == nil {
		return trDef{name: defName, why: fn + ": no `" + lhs + " := ...`"}
	}
	c := &trCtx{ptype: map[string]string{}, locals: map[string]bool{}, known: known}
	txt := c.expr(rhs)
	if c.err != "" {
		return trDef{name: defName, why: c.err}
	}
	return trDef{name: defName, text: fmt.Sprintf("(* %s: %s := %s *)\n", fn, lhs, norm(src(rhs))) + emit(defName, c, txt, "Z")}
}

// trPicked: an expression picked out of a method body, as a function of its free variables
func trPicked(rel, recv, fn, defName, res string, unsigned bool, pick func(*ast.FuncDecl) ast.Expr, known map[string]bool) trDef {
	fd := findFunc(rel, recv, fn)
	if fd == nil {
		return trDef{name: defName, why: rel + ": " + fn + " not found"}
	}
	e := pick(fd)
	if e == nil {
		return trDef{name: defName, why: fn + ": the expression was not found"}
	}
	c := &trCtx{ptype: map[string]string{}, locals: map[string]bool{}, known: known, unsigned: unsigned}
	txt := c.expr(e)
	if c.err != "" {
		return trDef{name: defName, why: c.err}
	}
	num := map[bool]string{true: "N", false: "Z"}[unsigned]
	return trDef{name: defName, text: fmt.Sprintf("(* %s: %s *)\n", fn, norm(src(e))) + emitTyped(defName, c, txt, num, res)}
}

// lastReturnSliceHigh: the upper bound k of `return xs[:k], ...` (last return of the function)
func lastReturnSliceHigh(fd *ast.FuncDecl) ast.Expr {
	var out ast.Expr
	ast.Inspect(fd.Body, func(x ast.Node) bool {
		if r, ok := x.(*ast.ReturnStmt); ok && len(r.Results) >= 1 {
			if sl, ok := r.Results[0].(*ast.SliceExpr); ok && sl.Low == nil && sl.High != nil {
				out = sl.High
			}
		}
		return true
	})
	return out
}

// firstIfCond: the condition of the first if statement of the function
func firstIfCond(fd *ast.FuncDecl) ast.Expr {
	for _, st := range fd.Body.List {
		if s, ok := st.(*ast.IfStmt); ok {
			return s.Cond
		}
	}
	return nil
}

// trReturned: the expression a one-statement method returns, as a function of its free variables (uint64: N with wrap)
func trReturned(rel, recv, fn, defName string, known map[string]bool) trDef {
	fd := findFunc(rel, recv, fn)
	if fd == nil || len(fd.Body.List) != 1 {
		return trDef{name: defName, why: rel + ": " + fn + " not found or not a single return"}
	}
	r, ok := fd.Body.List[0].(*ast.ReturnStmt)
	if !ok || len(r.Results) != 1 {
		return trDef{name: defName, why: fn + ": not a single return"}
	}
	c := &trCtx{ptype: map[string]string{}, locals: map[string]bool{}, known: known, unsigned: true}
	txt := c.expr(r.Results[0])
	if c.err != "" {
		return trDef{name: defName, why: c.err}
	}
	return trDef{name: defName, text: fmt.Sprintf("(* %s.%s: return %s *)\n", recv, fn, norm(src(r.Results[0]))) + emit(defName, c, txt, "N")}
}

func emit(name string, c *trCtx, body, num string) string { return emitTyped(name, c, body, num, num) }

func emitTyped(name string, c *trCtx, body, num, res string) string {
	var ps []string
	for _, p := range c.params {
		ps = append(ps, fmt.Sprintf("(%s : %s)", p, c.ptype[p]))
	}
	scope := "%" + num
	if len(c.guards) == 0 {
		return fmt.Sprintf("Definition %s %s : %s :=\n  (%s)%s.\n", name, strings.Join(ps, " "), res, body, scope)
	}
	var gs []string
	for _, g := range c.guards {
		gs = append(gs, fmt.Sprintf("(%s =? 0)", g))
	}
	// the last let-free expression is wrapped in Some: re-associate "let ... in E" as "let ... in Some E"
	k := strings.LastIndex(body, " in\n  ")
	if k >= 0 {
		body = body[:k+6] + "Some (" + body[k+6:] + ")"
	} else {
		body = "Some (" + body + ")"
	}
	return fmt.Sprintf("Definition %s %s : option %s :=\n  (if %s then None else\n  %s)%s.\n", name, strings.Join(ps, " "), num, strings.Join(gs, " || "), body, scope)
}

func writeTranslated(factsOut string) {
	known := map[string]bool{}
	var defs []trDef
	for _, fn := range []string{"MinInt", "MaxInt"} {
		d := trFunction("math/math.go", fn, known)
		defs = append(defs, d)
		if d.text != "" {
			known[fn] = true
		}
	}
	defs = append(defs, trFunction("utils/uuid.go", "UuidMod", known))
	defs = append(defs, trAssigned("index/hnsw.go", "Hnsw", "Search", "ef", "go_Search_ef", known))
	defs = append(defs, trAssigned("storage/allocator.go", "Allocator", "getPartitionsNodeIds", "n", "go_placement_n", known))
	defs = append(defs, trMethod("index/metadata.go", "Metadata", "Validate", "go_Metadata_Validate", true, known))
	defs = append(defs, trMethod("index/metadata.go", "Metadata", "bytesSize", "go_Metadata_bytesSize", true, known))
	defs = append(defs, trReturned("index/hnsw_vertex.go", "hnswVertex", "bytesSize", "go_vertex_bytesSize", known))
	defs = append(defs, trPicked("storage/dataset.go", "Dataset", "Search", "go_Search_cut", "Z", false, lastReturnSliceHigh, known))
	defs = append(defs, trPicked("storage/dataset.go", "Dataset", "SearchPartitions", "go_SearchPartitions_cut", "Z", false, lastReturnSliceHigh, known))
	defs = append(defs, trPicked("storage/dataset_manager.go", "DatasetManager", "Create", "go_Create_refuses", "bool", false, firstIfCond, known))
	var sb strings.Builder
	sb.WriteString("(* GENERATED by tools/factx (translate.go) from the expression trees of the Go sources - do not edit. *)\n")
	sb.WriteString("From Coq Require Import List ZArith NArith Bool.\nImport ListNotations.\n")
	sb.WriteString("Definition MaxIntVal : Z := 9223372036854775807%Z.   (* int((^uint(0)) >> 1) on a 64-bit platform *)\n")
	sb.WriteString("Definition two64N : N := 18446744073709551616%N.\n")
	sb.WriteString("Fixpoint le_bytesN (bs : list N) : N := match bs with [] => 0%N | b :: r => (b + 256 * le_bytesN r)%N end.\n\n")
	for _, d := range defs {
		if d.text == "" {
			sb.WriteString(fmt.Sprintf("(* NOT TRANSLATED: %s - %s *)\n\n", d.name, strings.ReplaceAll(d.why, "*)", "* )")))
			fmt.Printf("translated %s = FAILED (%s)\n", d.name, d.why)
			continue
		}
		sb.WriteString(d.text + "\n")
		fmt.Printf("translated %s = ok\n", d.name)
	}
	out := filepath.Join(filepath.Dir(factsOut), "Translated.v")
	old, _ := os.ReadFile(out)
	if string(old) != sb.String() {
		if err := os.WriteFile(out, []byte(sb.String()), 0644); err != nil {
			fmt.Fprintln(os.Stderr, err)
			os.Exit(2)
		}
	}
}
